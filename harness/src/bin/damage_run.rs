//! C16 driver: damaged files are detected, never served as data.
//!
//! usage:
//!   damage_run run    --tier quick|thorough --seed N [--workers N] [--only PROFILE] [--timeout SECS]
//!   damage_run replay <replay.json>
//!   damage_run worker <profiles.json>            (internal: child process executing cases)
//!
//! `run` builds small databases from seeded workloads (several tables on several levels with
//! small blocks; value log with full checksum verification; versioned history; a commit log that
//! is replayed at open), closes them, maps every byte of every table / commit-log / value-log
//! file to the region of the on-disk format it belongs to, and enumerates alterations
//! (bit flips, byte overwrites, truncations at block boundaries).  Every case is executed in a
//! child process: fresh copy of the database, apply the alteration, open the store with the real
//! code, get every key, scan forwards and backwards, read the history, close.
//!
//! Oracle (decides): every answer is the originally written data, or an error (including a
//! refused open).  Different data, a silently missing / resurrected key, a silently shorter scan,
//! a panic, an abort or a hang of the code under test is a violation.  For commit-log files the
//! answers must be those of *one* state "everything before the log + a prefix of the commits in
//! the log" (the damaged tail may be dropped, never a commit in the middle).
//!
//! The spec's prediction per (file kind, region, operation) comes from TLC (Integrity.tla) via the
//! check; the driver only reports the observed outcome classes per (file kind, region, operation).

use std::collections::{BTreeMap, BTreeSet};
use std::io::{BufRead, BufReader, Write};
use std::path::{Path, PathBuf};
use std::process::{Child, ChildStdin, Command, Stdio};
use std::sync::atomic::{AtomicUsize, Ordering};
use std::sync::{mpsc, Arc, Mutex};
use std::time::{Duration, Instant};

use rand::rngs::StdRng;
use rand::{Rng, SeedableRng};
use serde::{Deserialize, Serialize};
use serde_json::{json, Value};
use surrealkv::verif::clock::ManualClock;
use surrealkv::verif::integrity::sst_regions;
use surrealkv::{
	CompressionType,
	LSMIterator,
	Options,
	Tree,
	TreeBuilder,
	VLogChecksumLevel,
	WalRecoveryMode,
};
use verif_harness::keys::hex;
use verif_harness::out::Summary;

// ---------------------------------------------------------------------------------------------
// profiles
// ---------------------------------------------------------------------------------------------

#[derive(Serialize, Deserialize, Clone, Debug)]
struct OptSpec {
	block_size: usize,
	restart_interval: usize,
	index_partition_size: usize,
	level_count: u8,
	filter: bool,
	compression: Vec<u8>,
	vlog: bool,
	vlog_threshold: usize,
	vlog_max_file: u64,
	versioning: bool,
	flush_on_close: bool,
	wal_absolute: bool,
}

impl Default for OptSpec {
	fn default() -> Self {
		OptSpec {
			block_size: 256,
			restart_interval: 4,
			index_partition_size: 96,
			level_count: 4,
			filter: true,
			compression: vec![],
			vlog: false,
			vlog_threshold: 32,
			vlog_max_file: 1500,
			versioning: false,
			flush_on_close: true,
			wal_absolute: false,
		}
	}
}

fn make_options(s: &OptSpec, dir: &Path, clock: u64) -> Options {
	let mut o = Options::new()
		.with_path(dir.to_path_buf())
		.with_block_size(s.block_size)
		.with_block_restart_interval(s.restart_interval)
		.with_index_partition_size(s.index_partition_size)
		.with_level_count(s.level_count)
		.with_max_memtable_size(4 << 20)
		.with_compression_per_level(
			s.compression
				.iter()
				.map(|c| {
					if *c == 1 {
						CompressionType::SnappyCompression
					} else {
						CompressionType::None
					}
				})
				.collect(),
		)
		.with_enable_vlog(s.vlog)
		.with_vlog_value_threshold(s.vlog_threshold)
		.with_vlog_max_file_size(s.vlog_max_file)
		.with_vlog_checksum_verification(VLogChecksumLevel::Full)
		.with_flush_on_close(s.flush_on_close)
		.with_wal_recovery_mode(if s.wal_absolute {
			WalRecoveryMode::AbsoluteConsistency
		} else {
			WalRecoveryMode::TolerateCorruptedWithRepair
		})
		.with_verif_clock(ManualClock::new(clock));
	if !s.filter {
		o = o.with_filter_policy(None);
	}
	if s.versioning {
		o = o.with_versioning(true, 0);
	}
	// no background compaction may rearrange the files under test
	o.level0_max_files = 64;
	o.l0_stall_threshold = 128;
	o
}

type Kv = (Vec<u8>, Option<Vec<u8>>); // None = delete

#[derive(Clone, Debug)]
enum Step {
	Commit(Vec<Kv>),
	Flush,
	Rotate,
	Compact(u8),
}

struct ProfileSpec {
	name: String,
	/// which files are damaged: "sst", "vlog", "wal"
	axes: Vec<&'static str>,
	opts: OptSpec,
	steps: Vec<Step>,
	/// index (among Commit steps) of the first commit that lives only in the commit log
	wal_from: usize,
	/// keys never written (must stay absent)
	absent: Vec<Vec<u8>>,
	/// byte stride for regions larger than `full_below` in the quick tier (1 = every byte)
	big_file: bool,
}

#[derive(Serialize, Deserialize, Clone, Debug)]
struct HistItem {
	k: String,
	ts: u64,
	tomb: bool,
	v: String,
}

#[derive(Serialize, Deserialize, Clone, Debug)]
struct ProfileDesc {
	name: String,
	opts: OptSpec,
	pristine: String,
	clock: u64,
	universe: Vec<String>,
	/// states[j] = sorted (key, value) after the base commits and the first j log-only commits
	states: Vec<Vec<(String, String)>>,
	/// every value ever written per key (to tell a stale value from a foreign one)
	old_values: BTreeMap<String, Vec<String>>,
	history: Option<Vec<HistItem>>,
}

fn unhex(s: &str) -> Vec<u8> {
	(0..s.len() / 2).map(|i| u8::from_str_radix(&s[2 * i..2 * i + 2], 16).unwrap()).collect()
}

fn gen_keys(rng: &mut StdRng, n: usize) -> Vec<Vec<u8>> {
	// keys that are prefixes of one another, share long prefixes (prefix compression inside
	// blocks) and contain 0x00 / 0xff; all start with 'k' so that ["a","z") covers them
	let prefixes: [&[u8]; 8] =
		[b"k", b"ka", b"kab", b"kabc", b"k\x00", b"k\xff", b"kab\x00", b"kzzzzzzzzzzzz"];
	let alphabet: [u8; 10] = [0x00, 0x01, b'0', b'a', b'b', b'm', b'z', 0x7f, 0xfe, 0xff];
	let mut set: BTreeSet<Vec<u8>> = prefixes.iter().map(|p| p.to_vec()).collect();
	while set.len() < n {
		let mut k = prefixes[rng.random_range(0..prefixes.len())].to_vec();
		for _ in 0..rng.random_range(1..7) {
			k.push(alphabet[rng.random_range(0..alphabet.len())]);
		}
		set.insert(k);
	}
	let mut v: Vec<Vec<u8>> = set.into_iter().collect();
	// shuffle deterministically so that commit membership is not sorted by key
	for i in (1..v.len()).rev() {
		v.swap(i, rng.random_range(0..=i));
	}
	v
}

fn gen_val(rng: &mut StdRng, tag: &str, key: &[u8], len: usize) -> Vec<u8> {
	let mut v = format!("{}|{}|", tag, hex(key)).into_bytes();
	let compressible = rng.random_range(0..3) == 0;
	while v.len() < len {
		v.push(if compressible {
			b'x'
		} else {
			rng.random()
		});
	}
	v
}

fn gen_valc(rng: &mut StdRng, tag: &str, key: &[u8], classes: &[usize]) -> Vec<u8> {
	let len = classes[rng.random_range(0..classes.len())];
	gen_val(rng, tag, key, len)
}

fn absent_keys(keys: &[Vec<u8>]) -> Vec<Vec<u8>> {
	let set: BTreeSet<&Vec<u8>> = keys.iter().collect();
	let mut out = vec![];
	for k in keys.iter().take(6) {
		let mut a = k.clone();
		a.push(0x05);
		if !set.contains(&a) {
			out.push(a);
		}
	}
	out.push(b"kq-never".to_vec());
	out.push(b"j".to_vec()); // before every table's key range
	out.push(b"l".to_vec()); // after every table's key range
	out
}

fn profile_sst(seed: u64, variant: u64, snappy: bool) -> ProfileSpec {
	let mut rng = StdRng::seed_from_u64(seed.wrapping_mul(1000003).wrapping_add(variant * 7 + snappy as u64));
	let n = if snappy {
		40
	} else {
		64
	};
	let keys = gen_keys(&mut rng, n);
	let extra: Vec<Vec<u8>> = (0..8).map(|i| format!("kn{:02}", i).into_bytes()).collect();
	let lens = [1usize, 3, 12, 30, 30, 60, 120];
	let mut steps = vec![];
	let mut c1: Vec<Kv> =
		keys.iter().map(|k| (k.clone(), Some(gen_valc(&mut rng, "c1", k, &lens[..])))).collect();
	// one value larger than a block
	c1[0].1 = Some(gen_val(&mut rng, "c1big", &keys[0], 700));
	steps.push(Step::Commit(c1));
	steps.push(Step::Flush);
	steps.push(Step::Compact(0));
	steps.push(Step::Compact(1)); // -> L2
	let mut c2: Vec<Kv> = vec![];
	for (i, k) in keys.iter().enumerate() {
		if i % 3 == 0 {
			c2.push((k.clone(), Some(gen_valc(&mut rng, "c2", k, &lens[..]))));
		} else if i % 7 == 3 {
			c2.push((k.clone(), None));
		}
	}
	for k in &extra[..4] {
		c2.push((k.clone(), Some(gen_val(&mut rng, "c2", k, 20))));
	}
	steps.push(Step::Commit(c2));
	steps.push(Step::Flush);
	steps.push(Step::Compact(0)); // -> L1
	let mut c3: Vec<Kv> = vec![];
	for (i, k) in keys.iter().enumerate() {
		if i % 5 == 1 {
			c3.push((k.clone(), Some(gen_valc(&mut rng, "c3", k, &lens[..]))));
		} else if i % 11 == 5 {
			c3.push((k.clone(), None));
		}
	}
	for k in &extra[4..] {
		c3.push((k.clone(), Some(gen_val(&mut rng, "c3", k, 20))));
	}
	steps.push(Step::Commit(c3));
	steps.push(Step::Flush); // L0 (older)
	let mut c4: Vec<Kv> = vec![];
	for (i, k) in keys.iter().enumerate() {
		if i % 7 == 3 && i % 2 == 1 {
			c4.push((k.clone(), Some(gen_val(&mut rng, "c4", k, 25)))); // re-set a deleted key
		} else if i % 13 == 2 {
			c4.push((k.clone(), None));
		} else if i % 9 == 4 {
			c4.push((k.clone(), Some(gen_valc(&mut rng, "c4", k, &lens[..]))));
		}
	}
	steps.push(Step::Commit(c4)); // flushed by close -> L0 (newer)
	let mut all = keys.clone();
	all.extend(extra);
	ProfileSpec {
		name: format!("{}{}", if snappy { "sstz" } else { "sst" }, variant),
		axes: vec!["sst"],
		opts: OptSpec {
			compression: if snappy {
				vec![0, 1]
			} else {
				vec![]
			},
			..Default::default()
		},
		steps,
		wal_from: usize::MAX,
		absent: absent_keys(&all),
		big_file: false,
	}
}

fn profile_vlog(seed: u64) -> ProfileSpec {
	let mut rng = StdRng::seed_from_u64(seed.wrapping_mul(7919).wrapping_add(11));
	let keys = gen_keys(&mut rng, 28);
	let lens = [4usize, 20, 31, 32, 33, 80, 200];
	let mut steps = vec![];
	let c1: Vec<Kv> =
		keys.iter().map(|k| (k.clone(), Some(gen_valc(&mut rng, "c1", k, &lens[..])))).collect();
	steps.push(Step::Commit(c1));
	steps.push(Step::Flush);
	steps.push(Step::Compact(0));
	let mut c2: Vec<Kv> = vec![];
	for (i, k) in keys.iter().enumerate() {
		if i % 3 == 1 {
			c2.push((k.clone(), Some(gen_valc(&mut rng, "c2", k, &lens[..]))));
		} else if i % 8 == 2 {
			c2.push((k.clone(), None));
		}
	}
	steps.push(Step::Commit(c2));
	ProfileSpec {
		name: "vlog".into(),
		axes: vec!["vlog", "sst"],
		opts: OptSpec {
			vlog: true,
			vlog_threshold: 32,
			vlog_max_file: 1500,
			block_size: 300,
			..Default::default()
		},
		steps,
		wal_from: usize::MAX,
		absent: absent_keys(&keys),
		big_file: false,
	}
}

fn profile_versioned(seed: u64) -> ProfileSpec {
	let mut rng = StdRng::seed_from_u64(seed.wrapping_mul(104729).wrapping_add(5));
	let keys = gen_keys(&mut rng, 14);
	let lens = [3usize, 20, 50];
	let mut steps = vec![];
	for c in 0..3 {
		let mut cs: Vec<Kv> = vec![];
		for (i, k) in keys.iter().enumerate() {
			if c == 0 || (i + c) % 3 == 0 {
				cs.push((k.clone(), Some(gen_valc(&mut rng, &format!("c{}", c + 1), k, &lens[..]))));
			}
		}
		steps.push(Step::Commit(cs));
		if c < 2 {
			steps.push(Step::Flush);
		}
	}
	ProfileSpec {
		name: "versioned".into(),
		axes: vec!["vlog", "sst"],
		opts: OptSpec {
			vlog: true,
			vlog_threshold: 0,
			versioning: true,
			vlog_max_file: 4000,
			..Default::default()
		},
		steps,
		wal_from: usize::MAX,
		absent: absent_keys(&keys),
		big_file: false,
	}
}

/// Commit log axis: one flushed base commit, then commits that live only in two log segments.
fn profile_wal(seed: u64, absolute: bool) -> ProfileSpec {
	let mut rng = StdRng::seed_from_u64(seed.wrapping_mul(15485863).wrapping_add(3));
	let keys = gen_keys(&mut rng, 16);
	let lens = [2usize, 10, 40, 90];
	let mut steps = vec![];
	let c1: Vec<Kv> =
		keys.iter().take(10).map(|k| (k.clone(), Some(gen_valc(&mut rng, "b", k, &lens[..])))).collect();
	steps.push(Step::Commit(c1));
	steps.push(Step::Flush);
	for w in 0..8usize {
		let mut cs: Vec<Kv> = vec![];
		// every log commit touches a key that no other commit gives the same value, so that each
		// prefix of the log is a different state
		let marker = keys[(w * 5 + 1) % keys.len()].clone();
		cs.push((marker.clone(), Some(gen_valc(&mut rng, &format!("w{}", w + 1), &marker, &lens[..]))));
		for _ in 0..rng.random_range(0..3) {
			let k = keys[rng.random_range(0..keys.len())].clone();
			if k == marker {
				continue;
			}
			if rng.random_range(0..4) == 0 {
				cs.push((k, None));
			} else {
				let v = gen_valc(&mut rng, &format!("w{}", w + 1), &k, &lens[..]);
				cs.push((k, Some(v)));
			}
		}
		// the write-set is a map: keep the last write per key
		let mut m: BTreeMap<Vec<u8>, Option<Vec<u8>>> = BTreeMap::new();
		for (k, v) in cs {
			m.insert(k, v);
		}
		steps.push(Step::Commit(m.into_iter().collect()));
		if w == 4 {
			steps.push(Step::Rotate); // second log segment
		}
	}
	ProfileSpec {
		name: if absolute {
			"wal_absolute".into()
		} else {
			"wal_repair".into()
		},
		axes: vec!["wal"],
		opts: OptSpec {
			flush_on_close: false,
			wal_absolute: absolute,
			..Default::default()
		},
		steps,
		wal_from: 1,
		absent: absent_keys(&keys),
		big_file: false,
	}
}

/// One log segment with a record fragmented over two 32 KiB blocks and (by calibration of
/// `pad`) a record that ends 1..6 bytes before a block boundary, so that zero padding exists.
fn profile_wal_big(seed: u64, pad: usize, absolute: bool) -> ProfileSpec {
	let mut rng = StdRng::seed_from_u64(seed.wrapping_mul(32452843).wrapping_add(9));
	let keys = gen_keys(&mut rng, 8);
	let mut steps = vec![];
	steps.push(Step::Commit(vec![(keys[0].clone(), Some(gen_val(&mut rng, "b", &keys[0], 10)))]));
	steps.push(Step::Flush);
	steps.push(Step::Commit(vec![(keys[1].clone(), Some(gen_val(&mut rng, "w1", &keys[1], 30)))]));
	steps.push(Step::Commit(vec![(keys[2].clone(), Some(gen_val(&mut rng, "w2", &keys[2], 40_000)))]));
	steps.push(Step::Commit(vec![(keys[3].clone(), Some(gen_val(&mut rng, "w3", &keys[3], 20_000 + pad)))]));
	steps.push(Step::Commit(vec![(keys[4].clone(), Some(gen_val(&mut rng, "w4", &keys[4], 50)))]));
	steps.push(Step::Commit(vec![(keys[1].clone(), None), (keys[5].clone(), Some(gen_val(&mut rng, "w5", &keys[5], 9)))]));
	ProfileSpec {
		name: if absolute {
			"wal_big_absolute".into()
		} else {
			"wal_big".into()
		},
		axes: vec!["wal"],
		opts: OptSpec {
			flush_on_close: false,
			wal_absolute: absolute,
			..Default::default()
		},
		steps,
		wal_from: 1,
		absent: absent_keys(&keys),
		big_file: true,
	}
}

// ---------------------------------------------------------------------------------------------
// building the pristine databases
// ---------------------------------------------------------------------------------------------

const CLOCK0: u64 = 1_000_000;

fn build_db(p: &ProfileSpec, dir: &Path) -> Result<(), String> {
	let rt = verif_harness::rt();
	let _g = rt.enter();
	let clock = ManualClock::new(CLOCK0);
	let mut opts = make_options(&p.opts, dir, CLOCK0);
	opts = opts.with_verif_clock(Arc::clone(&clock));
	let tree = TreeBuilder::with_options(opts).build().map_err(|e| format!("build: {e}"))?;
	let mut t = CLOCK0;
	for s in &p.steps {
		match s {
			Step::Commit(kvs) => {
				t += 1000;
				clock.set(t);
				let mut txn = tree.begin().map_err(|e| e.to_string())?;
				for (k, v) in kvs {
					match v {
						Some(v) => txn.set(k.as_slice(), v.as_slice()).map_err(|e| e.to_string())?,
						None => txn.delete(k.as_slice()).map_err(|e| e.to_string())?,
					}
				}
				rt.block_on(txn.commit()).map_err(|e| format!("commit: {e}"))?;
			}
			Step::Flush => tree.verif_flush().map_err(|e| format!("flush: {e}"))?,
			Step::Rotate => tree.verif_rotate().map_err(|e| format!("rotate: {e}"))?,
			Step::Compact(l) => tree.verif_compact(*l).map_err(|e| format!("compact: {e}"))?,
		}
	}
	rt.block_on(tree.close()).map_err(|e| format!("close: {e}"))?;
	drop(tree);
	Ok(())
}

fn model_states(p: &ProfileSpec) -> (Vec<BTreeMap<Vec<u8>, Vec<u8>>>, BTreeMap<Vec<u8>, Vec<Vec<u8>>>) {
	let mut cur: BTreeMap<Vec<u8>, Vec<u8>> = BTreeMap::new();
	let mut old: BTreeMap<Vec<u8>, Vec<Vec<u8>>> = BTreeMap::new();
	let mut states = vec![];
	let mut ci = 0usize;
	for s in &p.steps {
		if let Step::Commit(kvs) = s {
			if ci == p.wal_from {
				states.push(cur.clone());
			}
			for (k, v) in kvs {
				match v {
					Some(v) => {
						old.entry(k.clone()).or_default().push(v.clone());
						cur.insert(k.clone(), v.clone());
					}
					None => {
						cur.remove(k);
					}
				}
			}
			if ci >= p.wal_from {
				states.push(cur.clone());
			}
			ci += 1;
		}
	}
	if states.is_empty() {
		states.push(cur);
	}
	(states, old)
}

fn copy_dir(src: &Path, dst: &Path) -> std::io::Result<()> {
	std::fs::create_dir_all(dst)?;
	for e in std::fs::read_dir(src)? {
		let e = e?;
		let to = dst.join(e.file_name());
		if e.file_type()?.is_dir() {
			copy_dir(&e.path(), &to)?;
		} else {
			std::fs::copy(e.path(), &to)?;
		}
	}
	Ok(())
}

// ---------------------------------------------------------------------------------------------
// region maps
// ---------------------------------------------------------------------------------------------

#[derive(Clone, Debug, Serialize)]
struct Region {
	kind: String,
	index: u32,
	off: u64,
	len: u64,
}

fn wal_regions(raw: &[u8]) -> Vec<Region> {
	const BS: usize = 32 * 1024;
	let mut out = vec![];
	let mut rec = 0u32;
	let mut push = |kind: &str, index: u32, off: usize, len: usize| {
		if len > 0 {
			out.push(Region {
				kind: kind.into(),
				index,
				off: off as u64,
				len: len as u64,
			});
		}
	};
	let mut base = 0usize;
	while base < raw.len() {
		let end = (base + BS).min(raw.len());
		let mut pos = base;
		loop {
			if end - pos < 7 {
				push("padding", rec, pos, end - pos);
				break;
			}
			let len = u16::from_be_bytes([raw[pos + 4], raw[pos + 5]]) as usize;
			let ty = raw[pos + 6];
			if ty == 0 {
				push("padding.zero", rec, pos, end - pos);
				break;
			}
			push("hdr.crc", rec, pos, 4);
			push("hdr.len", rec, pos + 4, 2);
			push("hdr.type", rec, pos + 6, 1);
			let l = len.min(end - pos - 7);
			let kind = match ty {
				1 => "payload.full",
				2 => "payload.first",
				3 => "payload.middle",
				4 => "payload.last",
				_ => "payload.other",
			};
			push(kind, rec, pos + 7, l);
			rec += 1;
			pos += 7 + l;
			if pos >= end {
				break;
			}
		}
		base = end;
	}
	out
}

fn vlog_regions(raw: &[u8]) -> Vec<Region> {
	let mut out = vec![];
	let mut push = |kind: &str, index: u32, off: usize, len: usize| {
		if len > 0 {
			out.push(Region {
				kind: kind.into(),
				index,
				off: off as u64,
				len: len as u64,
			});
		}
	};
	if raw.len() < 31 {
		push("header.short", 0, 0, raw.len());
		return out;
	}
	push("header.magic", 0, 0, 4);
	push("header.version", 0, 4, 2);
	push("header.file_id", 0, 6, 4);
	push("header.other", 0, 10, 21);
	let mut pos = 31usize;
	let mut i = 0u32;
	while pos + 8 <= raw.len() {
		let kl = u32::from_be_bytes([raw[pos], raw[pos + 1], raw[pos + 2], raw[pos + 3]]) as usize;
		let vl = u32::from_be_bytes([raw[pos + 4], raw[pos + 5], raw[pos + 6], raw[pos + 7]]) as usize;
		if pos + 8 + kl + vl + 4 > raw.len() {
			break;
		}
		push("entry.klen", i, pos, 4);
		push("entry.vlen", i, pos + 4, 4);
		push("entry.key", i, pos + 8, kl);
		push("entry.value", i, pos + 8 + kl, vl);
		push("entry.crc", i, pos + 8 + kl + vl, 4);
		pos += 8 + kl + vl + 4;
		i += 1;
	}
	push("trailing", i, pos, raw.len() - pos);
	out
}

fn file_kind(rel: &str) -> Option<&'static str> {
	if rel.ends_with(".sst") {
		Some("sst")
	} else if rel.ends_with(".wal") {
		Some("wal")
	} else if rel.ends_with(".vlog") {
		Some("vlog")
	} else {
		None
	}
}

fn list_files(root: &Path) -> Vec<String> {
	fn walk(root: &Path, d: &Path, out: &mut Vec<String>) {
		let mut es: Vec<_> = std::fs::read_dir(d).unwrap().map(|e| e.unwrap()).collect();
		es.sort_by_key(|e| e.file_name());
		for e in es {
			if e.file_type().unwrap().is_dir() {
				walk(root, &e.path(), out);
			} else {
				out.push(e.path().strip_prefix(root).unwrap().to_string_lossy().to_string());
			}
		}
	}
	let mut out = vec![];
	walk(root, root, &mut out);
	out
}

fn regions_of(path: &Path, kind: &str) -> Result<Vec<Region>, String> {
	let raw = std::fs::read(path).map_err(|e| e.to_string())?;
	Ok(match kind {
		"sst" => sst_regions(path)?
			.into_iter()
			.map(|r| Region {
				kind: r.kind.to_string(),
				index: r.index,
				off: r.offset,
				len: r.len,
			})
			.collect(),
		"wal" => wal_regions(&raw),
		_ => vlog_regions(&raw),
	})
}

// ---------------------------------------------------------------------------------------------
// cases and the worker
// ---------------------------------------------------------------------------------------------

#[derive(Serialize, Deserialize, Clone, Debug)]
struct Case {
	id: u64,
	profile: usize,
	file: String,
	/// "none" | "xor" | "set" | "trunc"
	kind: String,
	off: u64,
	val: u8,
}

#[derive(Serialize, Deserialize, Clone, Debug, Default)]
struct CaseResult {
	id: u64,
	/// "ok" | "err"
	open: String,
	err: String,
	gets_orig: u32,
	gets_err: u32,
	/// per scan-like op ("scan","rscan","history"): "orig" | "err" | "wrong" | "skip"
	scans: BTreeMap<String, String>,
	close: String,
	/// the state index all answers agree with (None: open refused / nothing observed)
	state: Option<usize>,
	n_states: usize,
	violations: Vec<Value>,
	panic: Option<String>,
	/// operation during which the code under test panicked / aborted / hung
	phase: String,
	wall_us: u64,
}

struct LoadedProfile {
	d: ProfileDesc,
	universe: Vec<Vec<u8>>,
	states: Vec<Vec<(Vec<u8>, Vec<u8>)>>,
	maps: Vec<BTreeMap<Vec<u8>, Vec<u8>>>,
	old: BTreeMap<Vec<u8>, Vec<Vec<u8>>>,
}

fn load_profile(d: &ProfileDesc) -> LoadedProfile {
	let states: Vec<Vec<(Vec<u8>, Vec<u8>)>> =
		d.states.iter().map(|s| s.iter().map(|(k, v)| (unhex(k), unhex(v))).collect()).collect();
	LoadedProfile {
		universe: d.universe.iter().map(|k| unhex(k)).collect(),
		maps: states.iter().map(|s| s.iter().cloned().collect()).collect(),
		states,
		old: d.old_values.iter().map(|(k, vs)| (unhex(k), vs.iter().map(|v| unhex(v)).collect())).collect(),
		d: d.clone(),
	}
}

fn apply_damage(dir: &Path, c: &Case) -> std::io::Result<()> {
	if c.kind == "none" {
		return Ok(());
	}
	let p = dir.join(&c.file);
	if c.kind == "trunc" {
		let f = std::fs::OpenOptions::new().write(true).open(&p)?;
		f.set_len(c.off)?;
		return Ok(());
	}
	let mut raw = std::fs::read(&p)?;
	let b = &mut raw[c.off as usize];
	*b = if c.kind == "xor" {
		*b ^ c.val
	} else {
		c.val
	};
	std::fs::write(&p, raw)
}

struct Judge<'a> {
	p: &'a LoadedProfile,
	cand: BTreeSet<usize>,
	violations: Vec<Value>,
}

impl<'a> Judge<'a> {
	fn observe(&mut self, op: &str, ok: impl Fn(usize) -> bool, describe: impl Fn(usize) -> Value) {
		let keep: BTreeSet<usize> = self.cand.iter().copied().filter(|j| ok(*j)).collect();
		if keep.is_empty() {
			// judged against the newest state still possible
			let best = *self.cand.iter().next_back().unwrap();
			let mut v = describe(best);
			v["op"] = json!(op);
			if self.p.states.len() > 1 {
				v["candidates"] = json!(self.cand.iter().collect::<Vec<_>>());
			}
			// at most two written-out observations per (operation, kind) and case
			if self.violations.iter().filter(|x| x["op"] == v["op"] && x["kind"] == v["kind"]).count() < 2 {
				self.violations.push(v);
			}
		} else {
			self.cand = keep;
		}
	}

	fn get(&mut self, k: &[u8], got: &Option<Vec<u8>>) {
		let p = self.p;
		self.observe(
			"get",
			|j| p.maps[j].get(k) == got.as_ref(),
			|j| {
				let want = p.maps[j].get(k);
				let kind = match (want, got) {
					(Some(_), None) => "missing_key",
					(None, Some(_)) => {
						if p.old.get(k).is_some_and(|vs| vs.contains(got.as_ref().unwrap())) {
							"resurrected_key"
						} else {
							"phantom_key"
						}
					}
					_ => {
						if p.old.get(k).is_some_and(|vs| vs.contains(got.as_ref().unwrap())) {
							"stale_value"
						} else {
							"wrong_value"
						}
					}
				};
				json!({"kind": kind, "key": hex(k), "want": want.map(|v| hex(v)), "got": got.as_ref().map(|v| hex(v))})
			},
		);
	}

	/// items yielded before the end / the error; `complete` = the iterator ended without error
	fn scan(&mut self, op: &str, items: &[(Vec<u8>, Vec<u8>)], complete: bool, reverse: bool) {
		let p = self.p;
		let expect = |j: usize| -> Vec<(Vec<u8>, Vec<u8>)> {
			let mut e = p.states[j].clone();
			if reverse {
				e.reverse();
			}
			e
		};
		self.observe(
			op,
			|j| {
				let e = expect(j);
				if complete {
					e.as_slice() == items
				} else {
					items.len() <= e.len() && &e[..items.len()] == items
				}
			},
			|j| {
				let e = expect(j);
				let common = e.iter().zip(items.iter()).take_while(|(a, b)| a == b).count();
				let kind = if common == items.len() && items.len() < e.len() {
					"short_scan"
				} else if common == e.len() {
					"long_scan"
				} else {
					"wrong_scan_item"
				};
				json!({"kind": kind, "complete": complete, "yielded": items.len(), "expected": e.len(), "first_difference_at": common,
					"want": e.get(common).map(|(k, v)| (hex(k), hex(v))), "got": items.get(common).map(|(k, v)| (hex(k), hex(v)))})
			},
		);
	}
}

fn short(e: &dyn std::fmt::Display) -> String {
	let s = e.to_string();
	s.chars().take(160).collect()
}

fn drain<I: LSMIterator>(it: &mut I, reverse: bool) -> (Vec<(Vec<u8>, Vec<u8>)>, Option<String>) {
	let mut items = vec![];
	let first = if reverse {
		it.seek_last()
	} else {
		it.seek_first()
	};
	if let Err(e) = first {
		return (items, Some(short(&e)));
	}
	let mut guard = 0u64;
	while it.valid() {
		let k = it.key().user_key().to_vec();
		match it.value() {
			Ok(v) => items.push((k, v)),
			Err(e) => return (items, Some(short(&e))),
		}
		let step = if reverse {
			it.prev()
		} else {
			it.next()
		};
		if let Err(e) = step {
			return (items, Some(short(&e)));
		}
		guard += 1;
		if guard > 1_000_000 {
			return (items, Some("iterator does not terminate".into()));
		}
	}
	(items, None)
}

/// The operation in progress is announced on stdout so that the parent can attribute a panic,
/// an abort or a hang of the code under test to it.
fn phase(name: &str) {
	let o = std::io::stdout();
	let mut o = o.lock();
	let _ = writeln!(o, "PHASE {}", name);
	let _ = o.flush();
}

fn observe_db(p: &LoadedProfile, dir: &Path, res: &mut CaseResult, want_history: bool) -> Option<Vec<HistItem>> {
	phase("open");
	let rt = verif_harness::rt();
	let _g = rt.enter();
	let opts = make_options(&p.d.opts, dir, p.d.clock);
	let tree: Tree = match TreeBuilder::with_options(opts).build() {
		Ok(t) => t,
		Err(e) => {
			res.open = "err".into();
			res.err = short(&e);
			return None;
		}
	};
	res.open = "ok".into();
	let mut judge = Judge {
		p,
		cand: (0..p.states.len()).collect(),
		violations: vec![],
	};
	let mut hist_out = None;
	{
		let txn = match tree.begin() {
			Ok(t) => t,
			Err(e) => {
				res.err = short(&e);
				res.open = "err".into();
				return None;
			}
		};
		phase("get");
		for k in &p.universe {
			match txn.get(k.as_slice()) {
				Ok(got) => {
					res.gets_orig += 1;
					judge.get(k, &got);
				}
				Err(e) => {
					res.gets_err += 1;
					if res.err.is_empty() {
						res.err = short(&e);
					}
				}
			}
		}
		phase("scan");
		for (name, reverse) in [("scan", false), ("rscan", true)] {
			match txn.range(b"a".as_slice(), b"z".as_slice()) {
				Ok(mut it) => {
					let (items, err) = drain(&mut it, reverse);
					judge.scan(name, &items, err.is_none(), reverse);
					res.scans.insert(name.into(), if err.is_none() { "orig" } else { "err" }.into());
					if let (Some(e), true) = (err, res.err.is_empty()) {
						res.err = e;
					}
				}
				Err(e) => {
					res.scans.insert(name.into(), "err".into());
					if res.err.is_empty() {
						res.err = short(&e);
					}
				}
			}
		}
		if p.d.opts.versioning {
			match txn.history(b"a".as_slice(), b"z".as_slice()) {
				Ok(mut it) => {
					let mut items: Vec<HistItem> = vec![];
					let mut err: Option<String> = None;
					match it.seek_first() {
						Err(e) => err = Some(short(&e)),
						Ok(_) => {
							while it.valid() {
								let kr = it.key();
								let (k, ts, tomb) = (hex(kr.user_key()), kr.timestamp(), kr.is_tombstone());
								let v = if tomb {
									Ok(vec![])
								} else {
									it.value()
								};
								match v {
									Ok(v) => items.push(HistItem {
										k,
										ts,
										tomb,
										v: hex(&v),
									}),
									Err(e) => {
										err = Some(short(&e));
										break;
									}
								}
								if let Err(e) = it.next() {
									err = Some(short(&e));
									break;
								}
								if items.len() > 100_000 {
									err = Some("history does not terminate".into());
									break;
								}
							}
						}
					}
					if want_history {
						hist_out = Some(items.clone());
					}
					if let Some(reference) = &p.d.history {
						let same = |a: &HistItem, b: &HistItem| a.k == b.k && a.ts == b.ts && a.tomb == b.tomb && a.v == b.v;
						let common = reference.iter().zip(items.iter()).take_while(|(a, b)| same(a, b)).count();
						let ok = if err.is_none() {
							common == reference.len() && items.len() == reference.len()
						} else {
							common == items.len()
						};
						if !ok {
							let kind = if common == items.len() {
								"short_history"
							} else {
								"wrong_history_item"
							};
							judge.violations.push(json!({"op": "history", "kind": kind, "yielded": items.len(), "expected": reference.len(),
								"first_difference_at": common, "want": reference.get(common), "got": items.get(common)}));
						}
						res.scans.insert("history".into(), if err.is_none() { "orig" } else { "err" }.into());
					}
					if let (Some(e), true) = (err, res.err.is_empty()) {
						res.err = e;
					}
				}
				Err(e) => {
					res.scans.insert("history".into(), "err".into());
					if res.err.is_empty() {
						res.err = short(&e);
					}
				}
			}
		}
	}
	phase("close");
	res.close = match rt.block_on(tree.close()) {
		Ok(()) => "ok".into(),
		Err(e) => {
			if res.err.is_empty() {
				res.err = short(&e);
			}
			"err".into()
		}
	};
	drop(tree);
	for v in judge.violations.iter_mut() {
		for (_, s) in res.scans.iter_mut() {
			let _ = s;
		}
		let _ = v;
	}
	for v in &judge.violations {
		if let Some(op) = v["op"].as_str() {
			if res.scans.contains_key(op) {
				res.scans.insert(op.to_string(), "wrong".into());
			}
		}
	}
	res.violations = judge.violations;
	res.state = judge.cand.iter().next_back().copied();
	hist_out
}

fn run_case(p: &LoadedProfile, c: &Case, scratch: &Path, want_history: bool) -> (CaseResult, Option<Vec<HistItem>>) {
	let t0 = Instant::now();
	let mut res = CaseResult {
		id: c.id,
		n_states: p.states.len(),
		..Default::default()
	};
	let dir = scratch.join(format!("c{}", c.id));
	let _ = std::fs::remove_dir_all(&dir);
	copy_dir(Path::new(&p.d.pristine), &dir).expect("copy pristine");
	apply_damage(&dir, c).expect("apply damage");
	let mut hist = None;
	let mut r2 = res.clone();
	match verif_harness::catch(|| observe_db(p, &dir, &mut r2, want_history)) {
		Ok(h) => {
			res = r2;
			hist = h;
		}
		Err(msg) => {
			res = r2;
			res.panic = Some(msg.chars().take(200).collect());
		}
	}
	let _ = std::fs::remove_dir_all(&dir);
	res.wall_us = t0.elapsed().as_micros() as u64;
	(res, hist)
}

fn worker_main(profiles_path: &str) {
	verif_harness::quiet_panics();
	// a damaged length field must not be able to take the machine down
	unsafe {
		let lim = libc::rlimit {
			rlim_cur: 16 << 30,
			rlim_max: 16 << 30,
		};
		libc::setrlimit(libc::RLIMIT_AS, &lim);
	}
	let descs: Vec<ProfileDesc> = serde_json::from_str(&std::fs::read_to_string(profiles_path).unwrap()).unwrap();
	let profs: Vec<LoadedProfile> = descs.iter().map(load_profile).collect();
	// inside the parent's scratch directory, so that nothing is left behind when this process is killed
	let scratch = Path::new(profiles_path).parent().unwrap().join(format!("w{}", std::process::id()));
	std::fs::create_dir_all(&scratch).unwrap();
	let stdin = std::io::stdin();
	let stdout = std::io::stdout();
	for line in stdin.lock().lines() {
		let line = line.unwrap();
		if line.trim().is_empty() {
			continue;
		}
		let c: Case = serde_json::from_str(&line).unwrap();
		let want_history = c.kind == "none";
		let (res, hist) = run_case(&profs[c.profile], &c, &scratch, want_history);
		let mut v = serde_json::to_value(&res).unwrap();
		if let Some(h) = hist {
			v["history"] = serde_json::to_value(h).unwrap();
		}
		let mut o = stdout.lock();
		writeln!(o, "RESULT {}", v).unwrap();
		o.flush().unwrap();
		if res.panic.is_some() {
			// state after a panic inside the engine is not trusted: start afresh
			std::process::exit(0);
		}
	}
}

// ---------------------------------------------------------------------------------------------
// the pool
// ---------------------------------------------------------------------------------------------

struct WorkerProc {
	child: Child,
	stdin: ChildStdin,
	rx: mpsc::Receiver<Option<String>>,
	errlog: PathBuf,
}

fn spawn_worker(profiles_path: &Path, tag: usize) -> WorkerProc {
	let errlog = profiles_path.with_file_name(format!("worker{}.stderr", tag));
	let errf = std::fs::File::create(&errlog).unwrap();
	let mut child = Command::new(std::env::current_exe().unwrap())
		.arg("worker")
		.arg(profiles_path)
		.env("RUST_BACKTRACE", "0")
		.envs(std::env::var("DAMAGE_PRELOAD").ok().filter(|p| Path::new(p).exists()).map(|p| ("LD_PRELOAD".to_string(), p)))
		.stdin(Stdio::piped())
		.stdout(Stdio::piped())
		.stderr(Stdio::from(errf))
		.spawn()
		.expect("spawn worker");
	let stdin = child.stdin.take().unwrap();
	let stdout = child.stdout.take().unwrap();
	let (tx, rx) = mpsc::channel();
	std::thread::spawn(move || {
		for line in BufReader::new(stdout).lines() {
			match line {
				Ok(l) => {
					if tx.send(Some(l)).is_err() {
						return;
					}
				}
				Err(_) => break,
			}
		}
		let _ = tx.send(None);
	});
	WorkerProc {
		child,
		stdin,
		rx,
		errlog,
	}
}

enum Exec {
	Done(CaseResult, Option<Vec<HistItem>>),
	/// (exit status and stderr tail, operation in progress)
	Died(String, String),
	Hang(String),
}

fn exec_case(w: &mut Option<WorkerProc>, profiles_path: &Path, tag: usize, c: &Case, timeout: Duration) -> Exec {
	if w.is_none() {
		*w = Some(spawn_worker(profiles_path, tag));
	}
	let wp = w.as_mut().unwrap();
	let line = serde_json::to_string(c).unwrap();
	if writeln!(wp.stdin, "{}", line).and_then(|_| wp.stdin.flush()).is_err() {
		// the worker exited after the previous case (panic path): restart once
		let _ = wp.child.wait();
		*w = Some(spawn_worker(profiles_path, tag));
		let wp = w.as_mut().unwrap();
		writeln!(wp.stdin, "{}", line).unwrap();
		wp.stdin.flush().unwrap();
	}
	let wp = w.as_mut().unwrap();
	let deadline = Instant::now() + timeout;
	let mut last_phase = String::from("open");
	loop {
		let left = deadline.saturating_duration_since(Instant::now());
		match wp.rx.recv_timeout(left) {
			Ok(Some(l)) => {
				if let Some(ph) = l.strip_prefix("PHASE ") {
					last_phase = ph.to_string();
				} else if let Some(js) = l.strip_prefix("RESULT ") {
					let v: Value = serde_json::from_str(js).unwrap();
					let hist = v.get("history").and_then(|h| serde_json::from_value(h.clone()).ok());
					let mut res: CaseResult = serde_json::from_value(v).unwrap();
					res.phase = last_phase.clone();
					if res.panic.is_some() {
						let _ = wp.child.wait();
						*w = None;
					}
					return Exec::Done(res, hist);
				}
			}
			Ok(None) | Err(mpsc::RecvTimeoutError::Disconnected) => {
				let status = wp.child.wait().map(|s| format!("{s}")).unwrap_or_default();
				let tail = std::fs::read_to_string(&wp.errlog).unwrap_or_default();
				let tail: String = tail.lines().rev().take(3).collect::<Vec<_>>().join(" | ");
				*w = None;
				return Exec::Died(format!("{status}; {}", tail.chars().take(300).collect::<String>()), last_phase);
			}
			Err(mpsc::RecvTimeoutError::Timeout) => {
				let _ = wp.child.kill();
				let _ = wp.child.wait();
				*w = None;
				return Exec::Hang(last_phase);
			}
		}
	}
}

// ---------------------------------------------------------------------------------------------
// planning
// ---------------------------------------------------------------------------------------------

struct FileMap {
	profile: usize,
	rel: String,
	kind: &'static str,
	regions: Vec<Region>,
	size: u64,
	raw: Vec<u8>,
}

fn structural(kind: &str) -> bool {
	// small regions that steer parsing: extra alterations in the quick tier
	kind.starts_with("footer.") && kind != "footer.padding"
		|| kind.ends_with(".type")
		|| kind.ends_with(".crc")
		|| kind.starts_with("hdr.")
		|| kind.starts_with("header.")
		|| kind.starts_with("entry.klen")
		|| kind.starts_with("entry.vlen")
		|| kind == "padding"
}

fn all_values(kind: &str) -> bool {
	// enum-like and length-like bytes that are not themselves a checksum or compared with a second
	// copy: these get every other byte value in the thorough tier
	matches!(kind, "footer.format" | "footer.handles" | "hdr.type" | "hdr.len" | "header.magic" | "header.version" | "header.file_id")
		|| kind.ends_with(".type")
}

fn plan_cases(files: &[FileMap], specs: &[ProfileSpec], tier: &str, seed: u64) -> Vec<(Case, usize)> {
	// returns (case, index into the flattened region table of its file)
	let mut rng = StdRng::seed_from_u64(seed ^ 0x5eed_c16);
	let mut out: Vec<(Case, usize)> = vec![];
	let thorough = tier == "thorough";
	for fm in files {
		let big = specs[fm.profile].big_file;
		let raw = &fm.raw;
		for (ri, r) in fm.regions.iter().enumerate() {
			let st = structural(&r.kind);
			// stride over large regions of the large-file profile only
			let stride: u64 = if big && !st && r.len > 512 {
				if thorough {
					(r.len / 1000).max(1)
				} else {
					(r.len / 120).max(1)
				}
			} else {
				1
			};
			let phase = if stride > 1 {
				rng.random_range(0..stride)
			} else {
				0
			};
			let mut offs: Vec<u64> = (0..r.len).filter(|i| i % stride == phase).map(|i| r.off + i).collect();
			if stride > 1 {
				for edge in [r.off, r.off + 1, r.off + r.len - 2, r.off + r.len - 1] {
					if !offs.contains(&edge) {
						offs.push(edge);
					}
				}
			}
			for off in offs {
				let mut alts: Vec<(&str, u8)> = vec![];
				if thorough {
					for b in 0..8 {
						alts.push(("xor", 1u8 << b));
					}
					if all_values(&r.kind) {
						// every other byte value
						for x in 1..=255u8 {
							if x.count_ones() != 1 {
								alts.push(("xor", x));
							}
						}
					} else {
						alts.push(("set", 0x00));
						alts.push(("set", 0xff));
						alts.push(("xor", rng.random_range(1..=255u8)));
					}
				} else {
					match rng.random_range(0..8) {
						0 => alts.push(("set", 0x00)),
						1 => alts.push(("set", 0xff)),
						2 => alts.push(("xor", rng.random_range(1..=255u8))),
						_ => alts.push(("xor", 1u8 << rng.random_range(0..8))),
					}
					if st {
						// structural bytes: a second, different alteration
						alts.push(("xor", 0x80));
						alts.push(("xor", 0x01));
					}
					if r.kind == "hdr.type" {
						// every defined record type (the byte is an enum that steers the reader)
						for t in [0u8, 1, 2, 3, 4, 9] {
							if raw[off as usize] != t {
								alts.push(("set", t));
							}
						}
					}
				}
				for (kind, val) in alts {
					// an overwrite with the value already there is no alteration: flip instead
					let (kind, val) = if kind == "set" && raw[off as usize] == val {
						("xor", 0xffu8)
					} else {
						(kind, val)
					};
					out.push((
						Case {
							id: 0,
							profile: fm.profile,
							file: fm.rel.clone(),
							kind: kind.into(),
							off,
							val,
						},
						ri,
					));
				}
			}
		}
		if fm.kind == "sst" {
			// the footer's block handles carry no checksum: look for the single-byte alterations that make
			// a handle designate ANOTHER intact block of the file (same offset and size), which then
			// passes the block checksum although it is not the block the writer meant
			if let Some((ri, hr)) = fm.regions.iter().enumerate().find(|(_, r)| r.kind == "footer.handles") {
				let blocks: BTreeSet<(u64, u64)> =
					fm.regions.iter().filter(|r| r.kind.ends_with(".payload") && r.kind != "metaindex.payload").map(|r| (r.off, r.len)).collect();
				let meta_start = fm.regions.iter().filter(|r| r.kind == "metaindex.payload" || r.kind == "properties").map(|r| r.off).min();
				let tail_end = (hr.off as usize + 40).min(raw.len());
				let decode = |buf: &[u8]| -> Option<[(u64, u64); 2]> {
					let mut vals = [0u64; 4];
					let mut pos = 0usize;
					for v in vals.iter_mut() {
						let mut shift = 0u32;
						loop {
							let b = *buf.get(pos)?;
							pos += 1;
							if shift >= 63 {
								return None;
							}
							*v |= ((b & 0x7f) as u64) << shift;
							shift += 7;
							if b & 0x80 == 0 {
								break;
							}
						}
					}
					Some([(vals[0], vals[1]), (vals[2], vals[3])])
				};
				let orig = decode(&raw[hr.off as usize..tail_end]);
				for i in 0..hr.len as usize {
					for v in 0..=255u8 {
						let mut buf = raw[hr.off as usize..tail_end].to_vec();
						if buf[i] == v {
							continue;
						}
						buf[i] = v;
						if let (Some(o), Some(n)) = (orig, decode(&buf)) {
							let hit = (0..2).any(|h| n[h] != o[h] && (blocks.contains(&n[h]) || Some(n[h].0) == meta_start && n[h] != o[0]));
							if hit {
								out.push((
									Case {
										id: 0,
										profile: fm.profile,
										file: fm.rel.clone(),
										kind: "set".into(),
										off: hr.off + i as u64,
										val: v,
									},
									ri,
								));
							}
						}
					}
				}
			}
			// truncation at every block boundary (= every region boundary), plus empty and one byte short
			let mut cuts: BTreeSet<u64> = fm.regions.iter().map(|r| r.off).collect();
			cuts.insert(fm.size - 1);
			cuts.insert(fm.size - 8);
			cuts.insert(fm.size - 50);
			for cut in cuts {
				let ri = fm.regions.iter().position(|r| r.off <= cut && cut < r.off + r.len).unwrap_or(0);
				out.push((
					Case {
						id: 0,
						profile: fm.profile,
						file: fm.rel.clone(),
						kind: "trunc".into(),
						off: cut,
						val: 0,
					},
					ri,
				));
			}
		}
	}
	// distinct by construction: one case per (file, offset, resulting byte) / (file, cut)
	let mut seen: BTreeSet<(usize, String, u64, u16)> = BTreeSet::new();
	out.retain(|(c, _)| {
		let fm = files.iter().find(|f| f.profile == c.profile && f.rel == c.file).unwrap();
		let res: u16 = match c.kind.as_str() {
			"trunc" => 0x100,
			"xor" => (fm.raw[c.off as usize] ^ c.val) as u16,
			_ => c.val as u16,
		};
		seen.insert((c.profile, c.file.clone(), c.off, res))
	});
	for (i, (c, _)) in out.iter_mut().enumerate() {
		c.id = i as u64 + 1000;
	}
	out
}

// ---------------------------------------------------------------------------------------------
// main
// ---------------------------------------------------------------------------------------------

fn arg_val(args: &[String], name: &str) -> Option<String> {
	args.iter().position(|a| a == name).and_then(|i| args.get(i + 1).cloned())
}

fn profile_list(tier: &str, seed: u64, wal_pad: usize) -> Vec<ProfileSpec> {
	let mut v = vec![profile_sst(seed, 0, false), profile_sst(seed, 0, true), profile_vlog(seed), profile_versioned(seed)];
	v.push(profile_wal(seed, false));
	v.push(profile_wal(seed, true));
	v.push(profile_wal_big(seed, wal_pad, false));
	v.push(profile_wal_big(seed, wal_pad, true));
	if tier == "thorough" {
		v.push(profile_sst(seed, 1, false));
		v.push(profile_sst(seed, 2, false));
	}
	v
}

/// The remainder of the log segment's block after record `w3` (see profile_wal_big): how many
/// filler bytes to add so that 1..6 bytes are left before the 32 KiB boundary.
fn calibrate_wal_pad(seed: u64, root: &Path) -> usize {
	let p = profile_wal_big(seed, 0, false);
	let dir = root.join("calib");
	let _ = std::fs::remove_dir_all(&dir);
	if build_db(&p, &dir).is_err() {
		return 0;
	}
	let mut pad = 0usize;
	for f in list_files(&dir) {
		if file_kind(&f) == Some("wal") {
			let raw = std::fs::read(dir.join(&f)).unwrap();
			let regs = wal_regions(&raw);
			// record index 3 is w3 (w2 occupies two physical records: first + last)
			let ends: Vec<u64> = regs.iter().filter(|r| r.kind.starts_with("payload")).map(|r| r.off + r.len).collect();
			if ends.len() >= 4 {
				let e = ends[3] as usize % 32768;
				let target = 32768 - 3;
				if e < target {
					pad = target - e;
				}
			}
		}
	}
	let _ = std::fs::remove_dir_all(&dir);
	pad
}

struct Prepared {
	specs: Vec<ProfileSpec>,
	descs: Vec<ProfileDesc>,
	files: Vec<FileMap>,
	profiles_path: PathBuf,
	_scratch: tempfile::TempDir,
}

fn prepare(tier: &str, seed: u64, only: Option<&str>, sum: &mut Summary) -> Result<Prepared, String> {
	let scratch = verif_harness::scratch_dir("dmg");
	let root = scratch.path().to_path_buf();
	let pad = calibrate_wal_pad(seed, &root);
	let mut specs = profile_list(tier, seed, pad);
	if let Some(o) = only {
		specs.retain(|s| s.name == o);
	}
	let mut descs = vec![];
	let mut files = vec![];
	for (pi, p) in specs.iter().enumerate() {
		let dir = root.join(&p.name);
		build_db(p, &dir).map_err(|e| format!("building {}: {}", p.name, e))?;
		let (states, old) = model_states(p);
		let mut universe: BTreeSet<Vec<u8>> = old.keys().cloned().collect();
		universe.extend(p.absent.iter().cloned());
		descs.push(ProfileDesc {
			name: p.name.clone(),
			opts: p.opts.clone(),
			pristine: dir.to_string_lossy().to_string(),
			clock: CLOCK0 + 1_000_000,
			universe: universe.iter().map(|k| hex(k)).collect(),
			states: states.iter().map(|s| s.iter().map(|(k, v)| (hex(k), hex(v))).collect()).collect(),
			old_values: old.iter().map(|(k, vs)| (hex(k), vs.iter().map(|v| hex(v)).collect())).collect(),
			history: None,
		});
		for rel in list_files(&dir) {
			if let Some(kind) = file_kind(&rel) {
				if !p.axes.contains(&kind) {
					continue;
				}
				let path = dir.join(&rel);
				let size = std::fs::metadata(&path).map_err(|e| e.to_string())?.len();
				if size == 0 {
					continue;
				}
				let regions = regions_of(&path, kind).map_err(|e| format!("layout of {}/{}: {}", p.name, rel, e))?;
				files.push(FileMap {
					profile: pi,
					rel,
					kind,
					regions,
					size,
					raw: std::fs::read(&path).map_err(|e| e.to_string())?,
				});
			}
		}
	}
	let profiles_path = root.join("profiles.json");
	std::fs::write(&profiles_path, serde_json::to_string(&descs).unwrap()).map_err(|e| e.to_string())?;

	// baseline: the untouched copy must answer exactly what the workload wrote
	let mut w: Option<WorkerProc> = None;
	for pi in 0..descs.len() {
		let c = Case {
			id: pi as u64,
			profile: pi,
			file: String::new(),
			kind: "none".into(),
			off: 0,
			val: 0,
		};
		match exec_case(&mut w, &profiles_path, 999, &c, Duration::from_secs(60)) {
			Exec::Done(r, hist) => {
				let full = r.open == "ok"
					&& r.gets_err == 0 && r.violations.is_empty()
					&& r.panic.is_none() && r.scans.values().all(|s| s == "orig")
					&& r.state == Some(descs[pi].states.len() - 1);
				if !full {
					return Err(format!("baseline of profile {} is not the written data: {}", descs[pi].name, serde_json::to_string(&r).unwrap()));
				}
				if descs[pi].opts.versioning {
					descs[pi].history = hist;
					if descs[pi].history.as_ref().map_or(0, |h| h.len()) == 0 {
						return Err(format!("baseline history of {} is empty", descs[pi].name));
					}
				}
			}
			Exec::Died(s, _) => return Err(format!("baseline of {} died: {}", descs[pi].name, s)),
			Exec::Hang(_) => return Err(format!("baseline of {} hangs", descs[pi].name)),
		}
	}
	drop(w);
	std::fs::write(&profiles_path, serde_json::to_string(&descs).unwrap()).map_err(|e| e.to_string())?;
	sum.extra.insert(
		"profiles".into(),
		json!(specs.iter().zip(descs.iter()).map(|(s, d)| json!({"name": s.name, "keys": d.universe.len(), "states": d.states.len(),
			"history_items": d.history.as_ref().map(|h| h.len()),
			"files": files.iter().filter(|f| descs[f.profile].name == s.name).map(|f| json!({"file": f.rel, "bytes": f.size, "regions": f.regions.len()})).collect::<Vec<_>>()})).collect::<Vec<_>>()),
	);
	sum.extra.insert("wal_pad_calibration".into(), json!(pad));
	Ok(Prepared {
		specs,
		descs,
		files,
		profiles_path,
		_scratch: scratch,
	})
}

fn op_of_phase(kind: &str, phase: &str) -> &'static str {
	match (kind, phase) {
		(_, "open") => "open",
		("wal", _) => "state",
		(_, "get") => "get",
		(_, "scan") => "scan",
		_ => "close",
	}
}

fn outcome_classes(kind: &str, r: &CaseResult) -> Vec<(&'static str, String)> {
	// (operation, outcome class) pairs compared with the spec's prediction
	let mut v = vec![];
	if r.panic.is_some() {
		v.push((op_of_phase(kind, &r.phase), "panic".to_string()));
		return v;
	}
	v.push(("open", if r.open == "ok" { "original" } else { "error" }.to_string()));
	if r.open != "ok" {
		return v;
	}
	let wrong_ops: BTreeSet<String> = r.violations.iter().filter_map(|x| x["op"].as_str().map(|s| s.to_string())).collect();
	if kind == "wal" {
		let st = if !r.violations.is_empty() {
			"hole"
		} else if r.state == Some(r.n_states - 1) {
			"original"
		} else {
			"prefix"
		};
		v.push(("state", st.to_string()));
		if r.gets_err > 0 || r.scans.values().any(|s| s == "err") {
			v.push(("state", "error".to_string()));
		}
		return v;
	}
	v.push((
		"get",
		if wrong_ops.contains("get") {
			"wrong"
		} else if r.gets_err > 0 {
			"error"
		} else {
			"original"
		}
		.to_string(),
	));
	let sc: Vec<&String> = r.scans.values().collect();
	v.push((
		"scan",
		if sc.iter().any(|s| *s == "wrong") {
			"wrong"
		} else if sc.iter().any(|s| *s == "err") {
			"error"
		} else {
			"original"
		}
		.to_string(),
	));
	v
}

fn main() {
	let args: Vec<String> = std::env::args().collect();
	if args.len() >= 3 && args[1] == "worker" {
		worker_main(&args[2]);
		return;
	}
	let mut sum = Summary::new("damage_run");
	let t0 = Instant::now();
	let timeout = Duration::from_secs(arg_val(&args, "--timeout").and_then(|s| s.parse().ok()).unwrap_or(30));
	if args.len() >= 3 && args[1] == "replay" {
		let doc: Value = serde_json::from_str(&std::fs::read_to_string(&args[2]).expect("read replay")).expect("json");
		let rp = if doc.get("replay").is_some() {
			doc["replay"].clone()
		} else {
			doc
		};
		let seed = rp["seed"].as_u64().unwrap_or(1);
		let tier = rp["tier"].as_str().unwrap_or("quick").to_string();
		let pname = rp["profile"].as_str().expect("profile").to_string();
		let prep = match prepare(&tier, seed, Some(&pname), &mut sum) {
			Ok(p) => p,
			Err(e) => {
				eprintln!("damage_run: {e}");
				std::process::exit(2);
			}
		};
		let c = Case {
			id: 1000,
			profile: 0,
			file: rp["file"].as_str().unwrap_or("").to_string(),
			kind: rp["kind"].as_str().unwrap_or("xor").to_string(),
			off: rp["off"].as_u64().unwrap_or(0),
			val: rp["val"].as_u64().unwrap_or(0) as u8,
		};
		let fm = prep.files.iter().find(|f| f.rel == c.file);
		let region = fm.and_then(|f| f.regions.iter().find(|r| r.off <= c.off && c.off < r.off + r.len)).map(|r| r.kind.clone()).unwrap_or_default();
		let mut w = None;
		let ex = exec_case(&mut w, &prep.profiles_path, 0, &c, timeout);
		sum.cases = 1;
		report_case(&mut sum, &prep, &c, &region, fm.map_or("", |f| f.kind), seed, &tier, &ex);
		sum.extra.insert("result".into(), match &ex {
			Exec::Done(r, _) => serde_json::to_value(r).unwrap(),
			Exec::Died(s, ph) => json!({"died": s, "phase": ph}),
			Exec::Hang(ph) => json!({"hang": true, "phase": ph}),
		});
		sum.print();
		return;
	}
	if args.len() >= 2 && args[1] == "layout" {
		// development aid: print the region map of every file under test
		let seed: u64 = arg_val(&args, "--seed").and_then(|s| s.parse().ok()).unwrap_or(1);
		let tier = arg_val(&args, "--tier").unwrap_or_else(|| "quick".into());
		let prep = prepare(&tier, seed, arg_val(&args, "--only").as_deref(), &mut sum).expect("prepare");
		for f in &prep.files {
			println!("{} {} ({} bytes)", prep.descs[f.profile].name, f.rel, f.size);
			for r in &f.regions {
				println!("   {:>7} +{:<6} {}[{}]", r.off, r.len, r.kind, r.index);
			}
		}
		return;
	}
	if args.len() < 2 || args[1] != "run" {
		eprintln!("usage: damage_run run --tier quick|thorough --seed N [--workers N] | replay FILE");
		std::process::exit(2);
	}
	let tier = arg_val(&args, "--tier").unwrap_or_else(|| "quick".into());
	let seed: u64 = arg_val(&args, "--seed").and_then(|s| s.parse().ok()).unwrap_or(1);
	let workers: usize = arg_val(&args, "--workers").and_then(|s| s.parse().ok()).unwrap_or(8);
	let only = arg_val(&args, "--only");
	let limit: Option<usize> = arg_val(&args, "--limit").and_then(|s| s.parse().ok());

	let prep = match prepare(&tier, seed, only.as_deref(), &mut sum) {
		Ok(p) => p,
		Err(e) => {
			eprintln!("damage_run: {e}");
			std::process::exit(2);
		}
	};
	let mut plan = plan_cases(&prep.files, &prep.specs, &tier, seed);
	if let Some(rf) = arg_val(&args, "--region") {
		// development aid: only the cases of one region kind
		plan.retain(|(c, ri)| prep.files.iter().find(|f| f.profile == c.profile && f.rel == c.file).is_some_and(|f| f.regions[*ri].kind.contains(&rf)));
	}
	if let Some(l) = limit {
		// evenly thinned (development aid)
		let step = (plan.len() / l.max(1)).max(1);
		plan = plan.into_iter().step_by(step).collect();
	}
	let plan = Arc::new(plan);
	let next = Arc::new(AtomicUsize::new(0));
	let results: Arc<Mutex<Vec<(usize, Exec)>>> = Arc::new(Mutex::new(Vec::with_capacity(plan.len())));
	let mut handles = vec![];
	for wi in 0..workers {
		let (plan, next, results, pp) = (Arc::clone(&plan), Arc::clone(&next), Arc::clone(&results), prep.profiles_path.clone());
		handles.push(std::thread::spawn(move || {
			let mut w: Option<WorkerProc> = None;
			let mut local = vec![];
			loop {
				let i = next.fetch_add(1, Ordering::SeqCst);
				if i >= plan.len() {
					break;
				}
				let ex = exec_case(&mut w, &pp, wi, &plan[i].0, timeout);
				local.push((i, ex));
				if local.len() >= 256 {
					results.lock().unwrap().append(&mut local);
				}
			}
			results.lock().unwrap().append(&mut local);
		}));
	}
	for h in handles {
		h.join().unwrap();
	}
	let mut results = std::mem::take(&mut *results.lock().unwrap());
	results.sort_by_key(|(i, _)| *i);

	// aggregate
	let mut per_region: BTreeMap<(String, String), BTreeMap<String, u64>> = BTreeMap::new();
	let mut observed: BTreeMap<(String, String, String), BTreeMap<String, u64>> = BTreeMap::new();
	let mut nontrivial = 0u64;
	let mut wall_us = 0u64;
	let mut positions: BTreeSet<(usize, String, u64)> = BTreeSet::new();
	for (i, ex) in &results {
		let (c, ri) = &plan[*i];
		let fm = prep.files.iter().find(|f| f.profile == c.profile && f.rel == c.file).unwrap();
		let region = fm.regions[*ri].kind.clone();
		let fk = match (fm.kind, prep.descs[c.profile].opts.wal_absolute) {
			("wal", true) => "wal@absolute".to_string(),
			("wal", false) => "wal@repair".to_string(),
			(k, _) => k.to_string(),
		};
		let rkey = if c.kind == "trunc" {
			format!("truncate@{}", region)
		} else {
			region.clone()
		};
		sum.cases += 1;
		positions.insert((c.profile, c.file.clone(), c.off));
		let label: String = match ex {
			Exec::Done(r, _) => {
				wall_us += r.wall_us;
				sum.steps += (r.gets_orig + r.gets_err) as u64 + r.scans.len() as u64 + 2;
				let effect = r.open != "ok" || r.gets_err > 0 || r.scans.values().any(|s| s != "orig") || r.close == "err"
					|| !r.violations.is_empty() || r.panic.is_some() || (r.n_states > 1 && r.state != Some(r.n_states - 1));
				if effect {
					nontrivial += 1;
				}
				for (op, oc) in outcome_classes(fm.kind, r) {
					*observed.entry((fk.clone(), rkey.clone(), op.to_string())).or_default().entry(oc).or_default() += 1;
				}
				if r.panic.is_some() {
					"VIOLATION:panic".into()
				} else if !r.violations.is_empty() {
					format!("VIOLATION:{}", r.violations[0]["kind"].as_str().unwrap_or("?"))
				} else if r.open != "ok" {
					"open_refused".into()
				} else if r.n_states > 1 && r.state != Some(r.n_states - 1) {
					"log_tail_dropped".into()
				} else if r.gets_err > 0 || r.scans.values().any(|s| s == "err") {
					"read_error".into()
				} else if r.close == "err" {
					"close_error".into()
				} else {
					"no_effect".into()
				}
			}
			Exec::Died(_, ph) => {
				nontrivial += 1;
				*observed.entry((fk.clone(), rkey.clone(), op_of_phase(fm.kind, ph).into())).or_default().entry("panic".into()).or_default() += 1;
				"VIOLATION:abort".into()
			}
			Exec::Hang(ph) => {
				nontrivial += 1;
				*observed.entry((fk.clone(), rkey.clone(), op_of_phase(fm.kind, ph).into())).or_default().entry("hang".into()).or_default() += 1;
				"VIOLATION:hang".into()
			}
		};
		if std::env::var("DAMAGE_DUMP").is_ok_and(|d| label.contains(&d)) {
			// development aid: list the cases with a given outcome label
			eprintln!("DUMP {} {} {} {}", label, rkey, serde_json::to_string(c).unwrap(), match ex {
				Exec::Done(r, _) => r.err.clone(),
				_ => String::new(),
			});
		}
		*per_region.entry((fk.clone(), rkey.clone())).or_default().entry(label).or_default() += 1;
		report_case(&mut sum, &prep, c, &region, fm.kind, seed, &tier, ex);
		if sum.samples.len() < 3 && (*i % (plan.len() / 3 + 1) == 7 % (plan.len() / 3 + 1)) {
			if let Exec::Done(r, _) = ex {
				sum.sample(json!({"profile": prep.descs[c.profile].name, "file": c.file, "region": rkey, "alteration": {"kind": c.kind, "off": c.off, "val": c.val},
					"open": r.open, "gets_original": r.gets_orig, "gets_error": r.gets_err, "scans": r.scans, "close": r.close, "state": r.state, "error": r.err}));
			}
		}
	}
	sum.extra.insert("tier".into(), json!(tier));
	sum.extra.insert("seed".into(), json!(seed));
	sum.extra.insert("workers".into(), json!(workers));
	sum.extra.insert("cases_with_observable_effect".into(), json!(nontrivial));
	sum.extra.insert("distinct_positions".into(), json!(positions.len()));
	sum.extra.insert("bytes_under_test".into(), json!(prep.files.iter().map(|f| f.size).sum::<u64>()));
	sum.extra.insert("worker_cpu_s".into(), json!(wall_us as f64 / 1e6));
	sum.extra.insert("wall_s".into(), json!(t0.elapsed().as_secs_f64()));
	sum.extra.insert(
		"outcomes_per_region".into(),
		json!(per_region.iter().map(|((f, r), m)| json!({"file": f, "region": r, "outcomes": m})).collect::<Vec<_>>()),
	);
	sum.extra.insert(
		"observed".into(),
		json!(observed.iter().map(|((f, r, o), m)| json!({"file": f, "region": r, "op": o, "outcomes": m})).collect::<Vec<_>>()),
	);
	sum.print();
}

#[allow(clippy::too_many_arguments)]
fn report_case(sum: &mut Summary, prep: &Prepared, c: &Case, region: &str, fkind: &str, seed: u64, tier: &str, ex: &Exec) {
	let replay = json!({"driver": "damage_run", "seed": seed, "tier": tier, "profile": prep.descs[c.profile].name,
		"file": c.file, "kind": c.kind, "off": c.off, "val": c.val});
	let region_label = if c.kind == "trunc" {
		format!("truncate@{}", region)
	} else {
		region.to_string()
	};
	let mut base = json!({"axis": fkind, "region": region_label, "profile_kind": prep.descs[c.profile].name.trim_end_matches(char::is_numeric)});
	if fkind == "wal" {
		// structural facts about a commit-log case: recovery mode, and whether a later segment exists
		base["recovery"] = json!(if prep.descs[c.profile].opts.wal_absolute { "absolute" } else { "repair" });
		base["later_segment"] = json!(prep.files.iter().any(|f| f.profile == c.profile && f.kind == "wal" && f.rel > c.file));
		if region == "hdr.type" && c.kind != "trunc" {
			// the record type the damaged byte now spells
			if let Some(f) = prep.files.iter().find(|f| f.profile == c.profile && f.rel == c.file) {
				let old = f.raw[c.off as usize];
				let nb = if c.kind == "xor" {
					old ^ c.val
				} else {
					c.val
				};
				base["new_type"] = json!(match nb {
					0 => "empty",
					1..=4 => "fragment",
					9 => "compression",
					_ => "invalid",
				});
			}
		}
	}
	let mut push = |kind: &str, op: &str, detail: Value| {
		let mut v = base.clone();
		v["kind"] = json!(kind);
		v["op"] = json!(op);
		// at most 3 written-out cases per structural signature, all are counted
		let same = sum
			.violations
			.iter()
			.filter(|x| ["axis", "region", "kind", "op", "recovery", "later_segment", "profile_kind", "new_type"].iter().all(|f| x[*f] == v[*f]))
			.count();
		v["detail"] = detail;
		v["replay"] = replay.clone();
		sum.violation_count += 1;
		// no global cap: every signature group keeps its written-out cases
		if same < 2 {
			sum.violations.push(v);
		}
	};
	match ex {
		Exec::Done(r, _) => {
			if let Some(p) = &r.panic {
				push("panic", op_of_phase(fkind, &r.phase), json!({"message": p}));
			}
			for v in &r.violations {
				let kind = if r.n_states > 1 {
					"not_prefix_consistent"
				} else {
					v["kind"].as_str().unwrap_or("wrong")
				};
				push(kind, v["op"].as_str().unwrap_or("?"), v.clone());
			}
		}
		Exec::Died(s, ph) => push("abort", op_of_phase(fkind, ph), json!({"exit": s})),
		Exec::Hang(ph) => push("hang", op_of_phase(fkind, ph), json!({})),
	}
}
