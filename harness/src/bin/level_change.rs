//! C06 / C07 directed scenario: a store is reopened with a different `level_count` than it was written with.
//! Answers must stay those of the logical history, through compactions at every level and another reopen.
//!
//! usage: level_change
use std::collections::BTreeMap;

use serde_json::json;
use surrealkv::{LSMIterator, Mode, Options, Tree, TreeBuilder};
use verif_harness::out::Summary;

fn opts(path: &std::path::Path, levels: u8) -> Options {
	let mut o = Options::new().with_path(path.to_path_buf()).with_max_memtable_size(1 << 20).with_level_count(levels);
	o.level0_max_files = 64;
	o.with_l0_stall_threshold(64).with_memtable_stall_threshold(64)
}

fn scan(tree: &Tree) -> Result<BTreeMap<String, String>, String> {
	let t = tree.begin_with_mode(Mode::ReadOnly).map_err(|e| e.to_string())?;
	let mut it = t.range(b"".to_vec(), b"~".to_vec()).map_err(|e| e.to_string())?;
	let mut m = BTreeMap::new();
	let mut ok = it.seek_first().map_err(|e| e.to_string())?;
	while ok && it.valid() {
		m.insert(String::from_utf8_lossy(&it.key().user_key()).to_string(), String::from_utf8_lossy(&it.value().map_err(|e| e.to_string())?).to_string());
		ok = it.next().map_err(|e| e.to_string())?;
	}
	// point reads must agree
	for (k, v) in m.clone() {
		let g = t.get(k.as_bytes()).map_err(|e| e.to_string())?;
		if g.as_deref() != Some(v.as_bytes()) {
			return Err(format!("get({k}) differs from the scan"));
		}
	}
	Ok(m)
}

fn main() {
	verif_harness::quiet_panics();
	let mut sum = Summary::new("level_change");
	let rt = verif_harness::rt_multi(2);
	let _g = rt.enter();
	for (first, second) in [(2u8, 4u8), (4, 2), (3, 7), (7, 3), (1, 3), (3, 1)] {
		sum.cases += 1;
		let case = json!({"written_with_levels": first, "reopened_with_levels": second});
		let dir = verif_harness::scratch_dir("lvl");
		let mut model: BTreeMap<String, String> = BTreeMap::new();
		let res = verif_harness::catch(|| -> Result<Vec<serde_json::Value>, String> {
			let mut viol = Vec::new();
			let tree = TreeBuilder::with_options(opts(dir.path(), first)).build().map_err(|e| format!("open: {e}"))?;
			let commit = |tree: &Tree, model: &mut BTreeMap<String, String>, k: &str, v: Option<&str>| -> Result<(), String> {
				let mut t = tree.begin().map_err(|e| e.to_string())?;
				match v {
					Some(v) => {
						t.set(k.as_bytes(), v.as_bytes()).map_err(|e| e.to_string())?;
						model.insert(k.to_string(), v.to_string());
					}
					None => {
						t.delete(k.as_bytes()).map_err(|e| e.to_string())?;
						model.remove(k);
					}
				}
				rt.block_on(t.commit()).map_err(|e| e.to_string())
			};
			// push versions down as far as the first configuration allows
			for round in 0..first.max(1) {
				for k in ["k1", "k2", "k3", "k4"] {
					commit(&tree, &mut model, k, Some(&format!("{k}-r{round}")))?;
				}
				tree.verif_flush().map_err(|e| e.to_string())?;
				for l in 0..first.saturating_sub(1) {
					let _ = tree.verif_compact(l);
				}
			}
			// newer tombstones and overwrites stay in the upper levels
			commit(&tree, &mut model, "k1", None)?;
			commit(&tree, &mut model, "k2", Some("k2-new"))?;
			tree.verif_flush().map_err(|e| e.to_string())?;
			let _ = tree.verif_compact(0);
			let before = scan(&tree)?;
			if before != model {
				viol.push(json!({"kind":"wrong_read","when":"before_reopen","want":model,"got":before}));
			}
			rt.block_on(tree.close()).map_err(|e| format!("close: {e}"))?;
			drop(tree);
			let tree = match TreeBuilder::with_options(opts(dir.path(), second)).build() {
				Ok(t) => t,
				Err(e) => {
					// a refusal is an answer the property allows only if it is clean: nothing may be changed
					viol.push(json!({"kind":"reopen_refused","error":e.to_string()}));
					return Ok(viol);
				}
			};
			let got = scan(&tree)?;
			if got != model {
				viol.push(json!({"kind":"wrong_read","when":"after_reopen","want":model,"got":got}));
			}
			// more writes and compactions at every level of the new configuration
			commit(&tree, &mut model, "k3", None)?;
			commit(&tree, &mut model, "k5", Some("k5-new"))?;
			tree.verif_flush().map_err(|e| e.to_string())?;
			for _ in 0..2 {
				for l in 0..second.max(first) {
					let _ = tree.verif_compact(l);
					let got = scan(&tree)?;
					if got != model {
						viol.push(json!({"kind":"wrong_read","when":format!("after_compacting_level_{l}"),"want":model,"got":got,
							"tables": tree.verif_state().tables.iter().map(|t| (t.level, t.id)).collect::<Vec<_>>() }));
						return Ok(viol);
					}
				}
			}
			rt.block_on(tree.close()).map_err(|e| format!("close: {e}"))?;
			drop(tree);
			match TreeBuilder::with_options(opts(dir.path(), second)).build() {
				Ok(t) => {
					let got = scan(&t)?;
					if got != model {
						viol.push(json!({"kind":"wrong_read","when":"after_second_reopen","want":model,"got":got}));
					}
					let _ = rt.block_on(t.close());
				}
				Err(e) => viol.push(json!({"kind":"reopen_refused","error":e.to_string(),"when":"second"})),
			}
			Ok(viol)
		});
		match res {
			Ok(Ok(v)) => {
				for mut x in v {
					x["case"] = case.clone();
					sum.violation(x);
				}
			}
			Ok(Err(e)) => sum.violation(json!({"kind":"engine_error","error":e,"case":case})),
			Err(p) => sum.violation(json!({"kind":"panic","message":p,"case":case})),
		}
		sum.sample(case);
	}
	sum.print();
}
