//! C18 driver: the B+tree index (src/bplustree/tree.rs) as a persistent ordered map.
//!
//!   btree_run tlc <tlc-output> [--cmp both|bytewise|ts] [--workers N] [--case-timeout S]
//!        spec -> code: every transition TLC explored in spec/btree/BTreeMC.tla (one
//!        `REPLAY` line each) is executed on a real DiskBPlusTree under both key orders;
//!        every result is judged against the ordered map, the file against the page
//!        ledger; the spec's predicted page file is compared as conformance drift.
//!   btree_run random --seed S --cases N --ops M [--trace-dir D --trace-cases K]
//!        seeded long random programs over skewed key sets (see gen.rs); the first K
//!        passing cases also write an NDJSON trace for spec/btree/BTreeTrace.tla.
//!   btree_run one <case.json>      re-run exactly one recorded case
//!   btree_run shrink <case.json>   print the minimised failing case
//!
//! Cases run in worker processes: a panic is caught in the worker, an abort or a hang
//! (no progress for --case-timeout seconds) is detected by the parent, which records
//! it as a violation of the case in progress and restarts the worker behind it.
//! The parent prints `SUMMARY {json}` as its last line.

mod exec;
mod gen;
mod tlcin;

use std::collections::BTreeMap;
use std::io::{BufRead, BufReader, Write};
use std::path::{Path, PathBuf};
use std::process::{Child, Command, Stdio};
use std::sync::mpsc;
use std::time::{Duration, Instant};

use exec::{key_bytes, Case, CaseReport, Cmp, Finding, OKey, Op, PreCache, Stats};
use serde_json::{json, Value};
use verif_harness::out::Summary;

#[derive(Clone, Debug)]
enum Source {
	Tlc {
		file: PathBuf,
		cmps: Vec<Cmp>,
	},
	Random {
		seed: u64,
		cases: u64,
		ops: usize,
		trace_dir: Option<PathBuf>,
		trace_cases: u64,
	},
	One {
		file: PathBuf,
	},
}

struct Args {
	source: Source,
	workers: usize,
	case_timeout: u64,
	worker: Option<(usize, usize, u64)>, // (w, W, skip_until)
	raw: Vec<String>,
}

fn usage() -> ! {
	eprintln!("usage: btree_run tlc <file> [--cmp both|bytewise|ts] | random --seed S --cases N --ops M [--trace-dir D --trace-cases K] | one <case.json> | shrink <case.json>   [--workers N] [--case-timeout S]");
	std::process::exit(2)
}

fn parse_args() -> Args {
	let raw: Vec<String> = std::env::args().skip(1).collect();
	let mut pos: Vec<String> = Vec::new();
	let mut opt: BTreeMap<String, String> = BTreeMap::new();
	let mut i = 0;
	while i < raw.len() {
		if let Some(name) = raw[i].strip_prefix("--") {
			if name == "worker" {
				opt.insert(name.into(), format!("{} {} {}", raw[i + 1], raw[i + 2], raw[i + 3]));
				i += 4;
				continue;
			}
			let v = raw.get(i + 1).cloned().unwrap_or_else(|| usage());
			opt.insert(name.to_string(), v);
			i += 2;
		} else {
			pos.push(raw[i].clone());
			i += 1;
		}
	}
	let num = |k: &str, d: u64| opt.get(k).map(|s| s.parse().unwrap_or_else(|_| usage())).unwrap_or(d);
	let source = match pos.first().map(|s| s.as_str()) {
		Some("tlc") => Source::Tlc {
			file: PathBuf::from(pos.get(1).unwrap_or_else(|| usage())),
			cmps: match opt.get("cmp").map(|s| s.as_str()).unwrap_or("both") {
				"bytewise" => vec![Cmp::Bytewise],
				"ts" => vec![Cmp::Ts],
				_ => vec![Cmp::Bytewise, Cmp::Ts],
			},
		},
		Some("random") => Source::Random {
			seed: num("seed", 1),
			cases: num("cases", 12),
			ops: num("ops", 2000) as usize,
			trace_dir: opt.get("trace-dir").map(PathBuf::from),
			trace_cases: num("trace-cases", 0),
		},
		Some("one") | Some("shrink") => Source::One {
			file: PathBuf::from(pos.get(1).unwrap_or_else(|| usage())),
		},
		_ => usage(),
	};
	let worker = opt.get("worker").map(|s| {
		let p: Vec<u64> = s.split(' ').map(|x| x.parse().unwrap()).collect();
		(p[0] as usize, p[1] as usize, p[2])
	});
	let ncpu = std::thread::available_parallelism().map(|n| n.get()).unwrap_or(4);
	Args {
		workers: num("workers", ncpu.min(12) as u64) as usize,
		case_timeout: num("case-timeout", if matches!(source, Source::Random { .. }) { 240 } else { 60 }),
		source,
		worker,
		raw,
	}
}

// ------------------------------------------------------------------------------------------
// worker

fn ranks_of(case: &Case) -> BTreeMap<OKey, u32> {
	let cmp = case.cmp();
	let mut set: BTreeMap<OKey, u32> = BTreeMap::new();
	let mut add = |k: &exec::KeySpec| {
		set.insert(
			OKey {
				cmp,
				bytes: key_bytes(cmp, k),
			},
			0,
		);
	};
	for op in case.pre.iter().chain(case.ops.iter()).chain(case.probes.iter()) {
		match op {
			Op::Insert {
				k,
				..
			}
			| Op::Delete {
				k,
			}
			| Op::Get {
				k,
			}
			| Op::Seek {
				k,
				..
			} => add(k),
			Op::Range {
				lo,
				hi,
			} => {
				for b in [lo, hi] {
					match b {
						exec::BoundSpec::Included(k) | exec::BoundSpec::Excluded(k) => add(k),
						_ => {}
					}
				}
			}
			_ => {}
		}
	}
	for (i, (_, r)) in set.iter_mut().enumerate() {
		*r = i as u32 + 1;
	}
	set
}

struct WorkerOut {
	out: std::io::Stdout,
}
impl WorkerOut {
	fn line(&mut self, tag: &str, v: &Value) {
		let mut l = self.out.lock();
		let _ = writeln!(l, "{tag} {}", serde_json::to_string(v).unwrap());
		let _ = l.flush();
	}
}

#[derive(Default)]
struct Tally {
	cases: u64,
	steps: u64,
	stats: Stats,
	br: BTreeMap<String, u64>,
	families: BTreeMap<String, u64>,
	spec_known: u64,
	spec_known_not_reproduced: u64,
	traces: u64,
	last_ops: BTreeMap<String, u64>,
	predicted_divergence: u64,
	shrunk: u32,
}

fn handle_case(case: &Case, idx: u64, dir: &Path, cache: &mut PreCache, tally: &mut Tally, o: &mut WorkerOut, trace_to: Option<&Path>) {
	o.line("S", &json!(idx));
	let mut rep: CaseReport;
	if let Some(tp) = trace_to {
		rep = run_traced(case, dir, cache, tp);
		if rep.violation.is_none() && rep.tool_error.is_none() {
			tally.traces += 1;
		}
	} else {
		rep = exec::run_case(case, dir, false, cache);
	}
	tally.cases += 1;
	tally.steps += rep.steps;
	tally.stats.absorb(&rep.stats);
	let fam = if case.id.starts_with("rand/") {
		case.id.split('/').nth(1).unwrap_or("?").to_string()
	} else {
		case.id.split('/').next().unwrap_or("?").to_string()
	};
	*tally.families.entry(fam).or_default() += 1;
	if let Some(sp) = &case.spec {
		for b in sp["br"].as_array().map(|a| a.as_slice()).unwrap_or(&[]) {
			*tally.br.entry(b.as_str().unwrap_or("?").to_string()).or_default() += 1;
		}
		let known = sp["known"]["cursor"] == true || sp["known"]["sep"] == true || sp["st"] == "corrupt";
		if known {
			tally.spec_known += 1;
			if rep.violation.is_none() {
				tally.spec_known_not_reproduced += 1;
			}
		}
		if let Some(last) = case.ops.last() {
			*tally.last_ops.entry(format!("{}:{}", last.name(), if rep.violation.is_some() { "viol" } else { "ok" })).or_default() += 1;
		}
	}
	if let Some(e) = rep.tool_error.take() {
		o.line("T", &json!({"idx": idx, "error": e}));
	}
	if let Some(f) = rep.violation.take() {
		// random cases are long: report the minimised program (same kind of failure)
		let mut shown = case.clone();
		if case.id.starts_with("rand/") && std::env::var("BT_NO_SHRINK").is_err() && tally.shrunk < 2 {
			tally.shrunk += 1;
			let t0 = Instant::now();
			let small = exec::shrink(case, dir);
			if t0.elapsed() < Duration::from_secs(120) {
				shown = small;
			}
		}
		let f2 = if shown.ops.len() != case.ops.len() {
			exec::run_case(&shown, dir, false, &mut PreCache::new()).violation.unwrap_or(f.clone())
		} else {
			f.clone()
		};
		o.line("V", &json!({"idx": idx, "case": shown, "finding": f2, "original": {"id": case.id, "ops": case.ops.len(), "step": f.step}}));
	}
	// a divergence between cached nodes and file that the spec itself predicts (its quirk
	// "sep_chain" has fired in this behaviour) is not a difference from the spec
	if case.spec.as_ref().map(|sp| sp["known"]["sep"] == true).unwrap_or(false) {
		let before = rep.drift.len();
		rep.drift.retain(|d| d.kind != "mem_disk_differ_unconfirmed");
		tally.predicted_divergence += (before - rep.drift.len()) as u64;
	}
	for d in rep.drift.iter().take(2) {
		o.line("D", &json!({"idx": idx, "id": case.id, "finding": d, "total": rep.drift.len()}));
	}
	if rep.drift.len() > 2 {
		o.line("D", &json!({"idx": idx, "id": case.id, "more": rep.drift.len() - 2}));
	}
}

fn run_traced(case: &Case, dir: &Path, cache: &mut PreCache, to: &Path) -> CaseReport {
	let path = dir.join(format!("c{}.bpt", std::process::id()));
	let _ = std::fs::remove_file(&path);
	let mut ex = exec::Exec::new(case.cmp(), &path);
	ex.trace_on = true;
	ex.ranks = ranks_of(case);
	let mut rep = CaseReport::default();
	let r = verif_harness::catch(|| ex.run(case, &mut rep, cache));
	if let Err(p) = r {
		rep.violation = Some(Finding {
			kind: "panic".into(),
			step: rep.steps.saturating_sub(1) as usize,
			detail: p,
			facts: json!({}),
		});
	}
	if rep.violation.is_none() {
		let mut klens = vec![0usize; ex.ranks.len()];
		for (k, r) in &ex.ranks {
			klens[*r as usize - 1] = k.bytes.len();
		}
		let mut f = std::io::BufWriter::new(std::fs::File::create(to).expect("create trace file"));
		let _ = writeln!(f, "{}", json!({"op": "H", "id": case.id, "cmp": case.cmp().name(), "klens": klens}));
		for e in &rep.trace {
			let _ = writeln!(f, "{}", e);
		}
	}
	drop(ex);
	let _ = std::fs::remove_file(&path);
	rep
}

fn worker_main(a: &Args, w: usize, nw: usize, skip_until: u64) {
	verif_harness::quiet_panics();
	let dir = verif_harness::scratch_dir("btree");
	let mut cache = PreCache::new();
	let mut tally = Tally::default();
	let mut o = WorkerOut {
		out: std::io::stdout(),
	};
	match &a.source {
		Source::Tlc {
			file,
			cmps,
		} => {
			let f = std::fs::File::open(file).unwrap_or_else(|e| {
				eprintln!("cannot open {}: {e}", file.display());
				std::process::exit(2)
			});
			let mut li: u64 = 0;
			for line in BufReader::with_capacity(1 << 20, f).lines() {
				let line = line.unwrap();
				if !line.starts_with("\"REPLAY ") {
					continue;
				}
				let this = li;
				li += 1;
				if this as usize % nw != w || this * 2 + 1 < skip_until {
					continue;
				}
				let Some(v) = tlcin::parse_line(&line) else {
					o.line("T", &json!({"idx": this * 2, "error": "unparsable REPLAY line"}));
					continue;
				};
				for (ci, cmp) in [Cmp::Bytewise, Cmp::Ts].iter().enumerate() {
					let idx = this * 2 + ci as u64;
					if idx < skip_until || !cmps.contains(cmp) {
						continue;
					}
					let scn = v["scn"].as_str().unwrap_or("tlc");
					match tlcin::case_from_tlc(&v, *cmp, format!("{}/{}/{}", scn, this, cmp.name())) {
						Ok(case) => handle_case(&case, idx, dir.path(), &mut cache, &mut tally, &mut o, None),
						Err(_) => {} // not mappable under this key order (e.g. the empty key under ts)
					}
				}
			}
		}
		Source::Random {
			seed,
			cases,
			ops,
			trace_dir,
			trace_cases,
		} => {
			for idx in 0..*cases {
				if idx as usize % nw != w || idx < skip_until {
					continue;
				}
				let case = gen::random_case(*seed, idx, *ops);
				let tp = match trace_dir {
					Some(d) if idx < *trace_cases => Some(d.join(format!("t{idx}.ndjson"))),
					_ => None,
				};
				handle_case(&case, idx, dir.path(), &mut cache, &mut tally, &mut o, tp.as_deref());
			}
		}
		Source::One {
			file,
		} => {
			if w == 0 && skip_until == 0 {
				let case = load_case(file);
				handle_case(&case, 0, dir.path(), &mut cache, &mut tally, &mut o, None);
			}
		}
	}
	o.line(
		"Z",
		&json!({"cases": tally.cases, "steps": tally.steps, "stats": tally.stats, "br": tally.br, "families": tally.families,
			"spec_known": tally.spec_known, "spec_known_not_reproduced": tally.spec_known_not_reproduced, "traces": tally.traces,
			"last_ops": tally.last_ops, "predicted_divergence": tally.predicted_divergence}),
	);
}

fn load_case(file: &Path) -> Case {
	let text = std::fs::read_to_string(file).unwrap_or_else(|e| {
		eprintln!("cannot read {}: {e}", file.display());
		std::process::exit(2)
	});
	let v: Value = serde_json::from_str(&text).unwrap_or_else(|e| {
		eprintln!("bad json in {}: {e}", file.display());
		std::process::exit(2)
	});
	// accept a bare case, {"case": ...} and a /verif replay file {"replay": {"case": ...}}
	let c = if v.get("replay").is_some() {
		v["replay"]["case"].clone()
	} else if v.get("case").is_some() {
		v["case"].clone()
	} else {
		v
	};
	serde_json::from_value(c).unwrap_or_else(|e| {
		eprintln!("not a case: {e}");
		std::process::exit(2)
	})
}

/// The case with index `idx` (parent side, for abort / hang reports).
fn case_at(src: &Source, idx: u64) -> Option<Case> {
	match src {
		Source::Tlc {
			file,
			..
		} => {
			let f = std::fs::File::open(file).ok()?;
			let mut li = 0u64;
			for line in BufReader::with_capacity(1 << 20, f).lines() {
				let line = line.ok()?;
				if !line.starts_with("\"REPLAY ") {
					continue;
				}
				if li == idx / 2 {
					let v = tlcin::parse_line(&line)?;
					let cmp = if idx % 2 == 0 {
						Cmp::Bytewise
					} else {
						Cmp::Ts
					};
					let scn = v["scn"].as_str().unwrap_or("tlc").to_string();
					return tlcin::case_from_tlc(&v, cmp, format!("{}/{}/{}", scn, li, cmp.name())).ok();
				}
				li += 1;
			}
			None
		}
		Source::Random {
			seed,
			ops,
			..
		} => Some(gen::random_case(*seed, idx, *ops)),
		Source::One {
			file,
		} => Some(load_case(file)),
	}
}

// ------------------------------------------------------------------------------------------
// parent

enum Msg {
	Line(usize, String),
	Eof(usize),
}

struct Slot {
	child: Child,
	current: Option<u64>,
	last: Instant,
	done: bool,
	killed: bool,
}

fn spawn_worker(a: &Args, w: usize, nw: usize, skip: u64, tx: &mpsc::Sender<Msg>, scratch: &Path) -> Child {
	let mut cmd = Command::new(std::env::current_exe().expect("current exe"));
	cmd.args(&a.raw).arg("--worker").arg(w.to_string()).arg(nw.to_string()).arg(skip.to_string());
	// workers keep their files under the parent's scratch directory (a killed worker cannot clean up)
	cmd.stdout(Stdio::piped()).stdin(Stdio::null()).env("RUST_BACKTRACE", "0").env("VERIF_WORK", scratch).env("VERIF_SCRATCH", scratch);
	let mut child = cmd.spawn().expect("spawn worker");
	let out = child.stdout.take().unwrap();
	let tx = tx.clone();
	std::thread::spawn(move || {
		for line in BufReader::with_capacity(1 << 20, out).lines() {
			match line {
				Ok(l) => {
					if tx.send(Msg::Line(w, l)).is_err() {
						return;
					}
				}
				Err(_) => break,
			}
		}
		let _ = tx.send(Msg::Eof(w));
	});
	child
}

fn main() {
	let a = parse_args();
	if let Some((w, nw, skip)) = a.worker {
		worker_main(&a, w, nw, skip);
		return;
	}
	if std::env::args().nth(1).as_deref() == Some("shrink") {
		if let Source::One {
			file,
		} = &a.source
		{
			verif_harness::quiet_panics();
			let dir = verif_harness::scratch_dir("btree");
			let small = exec::shrink(&load_case(file), dir.path());
			std::env::set_var("BT_DUMP", "1");
			let rep = exec::run_case(&small, dir.path(), false, &mut PreCache::new());
			println!("{}", serde_json::to_string(&json!({"case": small, "finding": rep.violation})).unwrap());
		}
		return;
	}
	let nw = match &a.source {
		Source::One {
			..
		} => 1,
		_ => a.workers.max(1),
	};
	let mut sum = Summary::new("btree_run");
	let scratch = verif_harness::scratch_dir("btree_run");
	let (tx, rx) = mpsc::channel::<Msg>();
	let mut slots: Vec<Slot> = (0..nw)
		.map(|w| Slot {
			child: spawn_worker(&a, w, nw, 0, &tx, scratch.path()),
			current: None,
			last: Instant::now(),
			done: false,
			killed: false,
		})
		.collect();
	let mut stats = Stats::default();
	let mut br: BTreeMap<String, u64> = BTreeMap::new();
	let mut families: BTreeMap<String, u64> = BTreeMap::new();
	let mut last_ops: BTreeMap<String, u64> = BTreeMap::new();
	let mut kinds: BTreeMap<String, u64> = BTreeMap::new();
	let mut drift_kinds: BTreeMap<String, u64> = BTreeMap::new();
	let mut tool_errors: Vec<Value> = Vec::new();
	let (mut spec_known, mut spec_known_nr, mut traces, mut predicted_div) = (0u64, 0u64, 0u64, 0u64);
	let mut all_violations: Vec<Value> = Vec::new();
	let mut finished = 0;
	let mut restarts = 0;
	while finished < nw {
		match rx.recv_timeout(Duration::from_millis(500)) {
			Ok(Msg::Line(w, l)) => {
				let s = &mut slots[w];
				s.last = Instant::now();
				let (tag, body) = l.split_at(l.find(' ').unwrap_or(l.len()));
				let v: Value = serde_json::from_str(body.trim()).unwrap_or(Value::Null);
				match tag {
					"S" => s.current = v.as_u64(),
					"V" => {
						*kinds.entry(v["finding"]["kind"].as_str().unwrap_or("?").to_string()).or_default() += 1;
						all_violations.push(v);
					}
					"D" => {
						if let Some(k) = v["finding"]["kind"].as_str() {
							*drift_kinds.entry(k.to_string()).or_default() += v["total"].as_u64().unwrap_or(1);
							sum.drift(v.clone());
							sum.drift_count += v["total"].as_u64().unwrap_or(1).saturating_sub(1);
						}
					}
					"T" => tool_errors.push(v),
					"Z" => {
						s.done = true;
						s.current = None;
						sum.cases += v["cases"].as_u64().unwrap_or(0);
						sum.steps += v["steps"].as_u64().unwrap_or(0);
						if let Ok(st) = serde_json::from_value::<Stats>(v["stats"].clone()) {
							stats.absorb(&st);
						}
						for (name, map) in [("br", &mut br), ("families", &mut families), ("last_ops", &mut last_ops)] {
							if let Some(o) = v[name].as_object() {
								for (k, n) in o {
									*map.entry(k.clone()).or_default() += n.as_u64().unwrap_or(0);
								}
							}
						}
						spec_known += v["spec_known"].as_u64().unwrap_or(0);
						spec_known_nr += v["spec_known_not_reproduced"].as_u64().unwrap_or(0);
						traces += v["traces"].as_u64().unwrap_or(0);
						predicted_div += v["predicted_divergence"].as_u64().unwrap_or(0);
					}
					_ => {}
				}
			}
			Ok(Msg::Eof(w)) => {
				let status = slots[w].child.wait().ok();
				if slots[w].done {
					finished += 1;
					continue;
				}
				// the worker died in the middle of a case: abort (signal) or killed by the watchdog
				let idx = slots[w].current;
				let kind = if slots[w].killed {
					"hang"
				} else {
					"abort"
				};
				*kinds.entry(kind.to_string()).or_default() += 1;
				let case = idx.and_then(|i| case_at(&a.source, i));
				all_violations.push(json!({
					"idx": idx, "case": case,
					"finding": {"kind": kind, "step": 0,
						"detail": format!("worker {} while running this case (exit status {:?}, timeout {} s)", if kind == "hang" { "made no progress" } else { "died" }, status, a.case_timeout),
						"facts": {}}}));
				restarts += 1;
				if restarts > 50 || idx.is_none() {
					tool_errors.push(json!({"error": format!("worker {w} died outside a case or too many restarts (status {:?})", status)}));
					finished += 1;
					continue;
				}
				slots[w] = Slot {
					child: spawn_worker(&a, w, nw, idx.unwrap() + 1, &tx, scratch.path()),
					current: None,
					last: Instant::now(),
					done: false,
					killed: false,
				};
			}
			Err(mpsc::RecvTimeoutError::Timeout) => {}
			Err(mpsc::RecvTimeoutError::Disconnected) => break,
		}
		for s in slots.iter_mut() {
			if !s.done && !s.killed && s.current.is_some() && s.last.elapsed() > Duration::from_secs(a.case_timeout) {
				s.killed = true;
				let _ = s.child.kill();
			}
		}
	}
	all_violations.sort_by_key(|v| v["idx"].as_u64().unwrap_or(u64::MAX));
	sum.violation_count = all_violations.len() as u64;
	// keep one example per distinct (kind, facts) first, then fill up
	let mut seen = std::collections::BTreeSet::new();
	let mut rest = Vec::new();
	for v in all_violations {
		let key = format!("{}|{}", v["finding"]["kind"], v["finding"]["facts"]);
		if seen.insert(key) && sum.violations.len() < 40 {
			sum.violations.push(v);
		} else {
			rest.push(v);
		}
	}
	for v in rest {
		if sum.violations.len() < 40 {
			sum.violations.push(v);
		}
	}
	if let Some(c) = case_at(&a.source, 0) {
		let mut c = c;
		c.shape = None;
		c.want_scan = None;
		c.universe.clear();
		c.probes.truncate(3);
		c.ops.truncate(12);
		sum.sample(json!({"case": c}));
	}
	sum.extra.insert("stats".into(), json!(stats));
	sum.extra.insert("spec_branches".into(), json!(br));
	sum.extra.insert("families".into(), json!(families));
	sum.extra.insert("last_op_outcomes".into(), json!(last_ops));
	sum.extra.insert("violation_kinds".into(), json!(kinds));
	sum.extra.insert("drift_kinds".into(), json!(drift_kinds));
	sum.extra.insert("spec_known_cases".into(), json!(spec_known));
	sum.extra.insert("spec_known_not_reproduced".into(), json!(spec_known_nr));
	sum.extra.insert("traces_written".into(), json!(traces));
	sum.extra.insert("divergence_predicted_by_spec".into(), json!(predicted_div));
	sum.extra.insert("worker_restarts".into(), json!(restarts));
	sum.extra.insert("tool_errors".into(), json!(tool_errors));
	sum.print();
	if !tool_errors.is_empty() {
		std::process::exit(2);
	}
}
