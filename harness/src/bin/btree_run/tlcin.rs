//! TLC output -> cases. One line `"REPLAY {json}"` per explored transition of
//! spec/btree/BTreeMC.tla (see `Export` there):
//!   cfg.kl / cfg.vl   key lengths per model key, value lengths per size class
//!   pre               preload program  [["I", k, c] | ["D", k, 0]]
//!   ops               [{op: "I"|"D"|"R", k, c, n, was}]
//!   scan              the spec's ordered map after the last op  [[k, {c, n}]]
//!   st, fired, br, known   what the spec says about this behaviour
//!   shape             the spec's prediction of the page file

use std::collections::HashMap;

use serde_json::{json, Value};
use surrealkv::verif::btree::PageAccounting;

use crate::exec::{fnv1a, key_bytes, BoundSpec, Case, Cmp, KeySpec, Op, ValSpec};

pub fn model_key(i: u64, kl: &[u32]) -> KeySpec {
	KeySpec {
		g: ((i - 1) / 2) as u32,
		t: ((i - 1) % 2) as u8,
		len: kl[(i - 1) as usize],
		alias: 0,
	}
}

/// Can this key-length table be mapped under `cmp` such that model order = key order?
pub fn mappable(cmp: Cmp, kl: &[u32]) -> bool {
	match cmp {
		// (g, t) prefix decides; the empty key (len 0) must be key 1; everything else >= 3
		Cmp::Bytewise => kl.iter().enumerate().all(|(i, &l)| (l == 0 && i == 0) || l >= 3),
		// user key = g prefix + filler of (len - 16): both versions of a group must not
		// have a longer first version; >= 18 bytes
		Cmp::Ts => kl.iter().all(|&l| l >= 18) && kl.chunks(2).all(|c| c.len() < 2 || c[0] <= c[1]),
	}
}

pub fn parse_line(line: &str) -> Option<Value> {
	let text: String = if line.starts_with("\"REPLAY ") {
		let s: String = serde_json::from_str(line).ok()?;
		s["REPLAY ".len()..].to_string()
	} else if line.starts_with('{') {
		line.to_string()
	} else {
		return None;
	};
	serde_json::from_str(&text).ok()
}

fn u(v: &Value) -> u64 {
	v.as_u64().unwrap_or(0)
}

/// Build the case for one exported transition under one comparator.
pub fn case_from_tlc(v: &Value, cmp: Cmp, id: String) -> Result<Case, String> {
	let kl: Vec<u32> = v["cfg"]["kl"].as_array().ok_or("no cfg.kl")?.iter().map(|x| u(x) as u32).collect();
	let vl: Vec<u32> = v["cfg"]["vl"].as_array().ok_or("no cfg.vl")?.iter().map(|x| u(x) as u32).collect();
	if !mappable(cmp, &kl) {
		return Err("key lengths not mappable under this comparator".into());
	}
	let universe: Vec<KeySpec> = (1..=kl.len() as u64).map(|i| model_key(i, &kl)).collect();
	let mut gen: HashMap<u64, u32> = HashMap::new(); // key -> generation of the stored value
	let mut pre = Vec::new();
	for o in v["pre"].as_array().map(|a| a.as_slice()).unwrap_or(&[]) {
		let k = u(&o[1]);
		if o[0] == "I" {
			let n = match gen.get(&k) {
				None => 0,
				Some(g) => 1 - g,
			};
			gen.insert(k, n);
			pre.push(Op::Insert {
				k: universe[(k - 1) as usize],
				v: ValSpec {
					len: vl[(u(&o[2]) - 1) as usize],
					stamp: n,
				},
			});
		} else {
			gen.remove(&k);
			pre.push(Op::Delete {
				k: universe[(k - 1) as usize],
			});
		}
	}
	let mut ops = Vec::new();
	let mut touched: Vec<u64> = Vec::new();
	for o in v["ops"].as_array().ok_or("no ops")? {
		let k = u(&o["k"]);
		match o["op"].as_str().unwrap_or("") {
			"I" => {
				touched.push(k);
				ops.push(Op::Insert {
					k: universe[(k - 1) as usize],
					v: ValSpec {
						len: vl[(u(&o["c"]) - 1) as usize],
						stamp: u(&o["n"]) as u32,
					},
				})
			}
			"D" => {
				touched.push(k);
				ops.push(Op::Delete {
					k: universe[(k - 1) as usize],
				})
			}
			"R" => ops.push(Op::Reopen),
			other => return Err(format!("unknown op {other}")),
		}
	}
	let want_scan: Vec<(KeySpec, ValSpec)> = v["scan"]
		.as_array()
		.ok_or("no scan")?
		.iter()
		.map(|e| {
			(
				universe[(u(&e[0]) - 1) as usize],
				ValSpec {
					len: vl[(u(&e[1]["c"]) - 1) as usize],
					stamp: u(&e[1]["n"]) as u32,
				},
			)
		})
		.collect();
	// probes: the effect of the last step must be observable at once
	let mut probes = vec![Op::Ledger, Op::Scan];
	for k in &universe {
		probes.push(Op::Get {
			k: *k,
		});
	}
	let n = universe.len() as u64;
	let mut bkeys: Vec<u64> = vec![1, n];
	for &t in touched.iter().rev().take(2) {
		bkeys.push(t);
		if t > 1 {
			bkeys.push(t - 1);
		}
		if t < n {
			bkeys.push(t + 1);
		}
	}
	bkeys.sort();
	bkeys.dedup();
	for &k in &bkeys {
		probes.push(Op::Seek {
			k: universe[(k - 1) as usize],
			fwd: 2,
			back: 3,
		});
	}
	probes.push(Op::Fresh);
	let mut bounds = vec![(0u64, BoundSpec::Unbounded)];
	for &k in &bkeys {
		bounds.push((k * 2, BoundSpec::Included(universe[(k - 1) as usize])));
		bounds.push((k * 2 + 1, BoundSpec::Excluded(universe[(k - 1) as usize])));
	}
	for (ra, lo) in &bounds {
		for (rb, hi) in &bounds {
			// proper (not inverted) ranges only: what an inverted range answers is left open
			let proper = *ra == 0 || *rb == 0 || ra / 2 < rb / 2 || (ra / 2 == rb / 2 && ra % 2 == 0 && rb % 2 == 0);
			if proper {
				probes.push(Op::Range {
					lo: lo.clone(),
					hi: hi.clone(),
				});
			}
		}
	}
	Ok(Case {
		id,
		cmp: Some(cmp),
		pre,
		ops,
		probes,
		ledger_every: 1,
		audit_every: 0,
		want_scan: Some(want_scan),
		shape: Some(v["shape"].clone()),
		universe,
		val_lens: vl,
		spec: Some(json!({"st": v["st"], "fired": v["fired"], "br": v["br"], "known": v["known"]})),
	})
}

// ------------------------------------------------------------------------------------------
// conformance: the spec's page file vs the real one

fn spec_desc(p: &Value) -> String {
	let arr = |v: &Value| -> String {
		v.as_array().map(|a| a.iter().map(|x| x.to_string()).collect::<Vec<_>>().join(",")).unwrap_or_default()
	};
	match p["t"].as_str().unwrap_or("?") {
		"leaf" => {
			let vc: Vec<String> =
				p["vs"].as_array().map(|a| a.iter().map(|x| x["c"].to_string()).collect()).unwrap_or_default();
			format!("leaf ks=[{}] vc=[{}] ov=[{}] next={} prev={}", arr(&p["ks"]), vc.join(","), arr(&p["ov"]), p["next"], p["prev"])
		}
		"int" => format!("int ks=[{}] kov=[{}] ch=[{}]", arr(&p["ks"]), arr(&p["kov"]), arr(&p["ch"])),
		"ovf" => format!("ovf next={}", p["next"]),
		"trunk" => format!("trunk next={} fp=[{}]", p["next"], arr(&p["fp"])),
		"free" => "free".into(),
		other => other.to_string(),
	}
}

/// First difference between the spec's predicted page file and the real one, if any.
pub fn shape_diff(cmp: Cmp, case: &Case, shape: &Value, a: &PageAccounting) -> Option<String> {
	if !a.problems.is_empty() {
		return Some(format!("real file cannot be walked: {}", a.problems[0]));
	}
	let hdr = [("total", a.total_pages), ("root", a.root), ("trunk", a.trunk_head), ("fcount", a.free_page_count)];
	for (name, real) in hdr {
		if shape[name].as_u64() != Some(real) {
			return Some(format!("header.{name}: spec {} real {}", shape[name], real));
		}
	}
	let ids: HashMap<u64, usize> =
		case.universe.iter().enumerate().map(|(i, k)| (fnv1a(&key_bytes(cmp, k)), i + 1)).collect();
	let classes: HashMap<u32, usize> = case.val_lens.iter().enumerate().map(|(i, &l)| (l, i + 1)).collect();
	let mut real: HashMap<u64, String> = HashMap::new();
	let join = |v: Vec<String>| v.join(",");
	for n in &a.nodes {
		let ks = join(n.key_hashes.iter().map(|h| ids.get(h).map(|i| i.to_string()).unwrap_or("?".into())).collect());
		let ov = join(n.chains.iter().map(|c| c.first().copied().unwrap_or(0).to_string()).collect());
		let d = if n.is_leaf {
			let vc = join(n.val_lens.iter().map(|l| classes.get(l).map(|c| c.to_string()).unwrap_or("?".into())).collect());
			format!("leaf ks=[{ks}] vc=[{vc}] ov=[{ov}] next={} prev={}", n.next, n.prev)
		} else {
			format!("int ks=[{ks}] kov=[{ov}] ch=[{}]", join(n.children.iter().map(|c| c.to_string()).collect()))
		};
		real.insert(n.page, d);
		for c in &n.chains {
			for (i, &p) in c.iter().enumerate() {
				real.insert(p, format!("ovf next={}", c.get(i + 1).copied().unwrap_or(0)));
			}
		}
	}
	let mut off = 0usize;
	for (i, &t) in a.trunks.iter().enumerate() {
		let fill = a.trunk_fill[i] as usize;
		let fp = &a.free_entries[off..off + fill];
		off += fill;
		real.insert(
			t,
			format!("trunk next={} fp=[{}]", a.trunks.get(i + 1).copied().unwrap_or(0), join(fp.iter().map(|p| p.to_string()).collect())),
		);
		for &p in fp {
			real.insert(p, "free".into());
		}
	}
	let pages = shape["pages"].as_array()?;
	for (i, sp) in pages.iter().enumerate() {
		let p = (i + 1) as u64;
		let s = spec_desc(sp);
		match real.get(&p) {
			Some(r) if *r == s => {}
			Some(r) => return Some(format!("page {p}: spec `{s}` real `{r}`")),
			None => {
				// a page the spec itself knows to be leaked (quirk "sep_chain" has fired)
				let leaked_in_spec = sp["t"] == "ovf"
					&& case.spec.as_ref().map(|x| x["fired"].as_array().map(|a| !a.is_empty()).unwrap_or(false)).unwrap_or(false);
				if !leaked_in_spec {
					return Some(format!("page {p}: spec `{s}` real: unreferenced"));
				}
			}
		}
	}
	None
}
