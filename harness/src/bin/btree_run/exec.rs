//! Key / value byte mapping, the driver's own key orders, the case format, the
//! executor that runs one case on a real `DiskBPlusTree` and judges every observable
//! result, and the page ledger over `verif_page_accounting()`.
//!
//! Judgement uses only what the property (C18) states:
//!   * every get / delete / range / cursor answer = the ordered map's answer under the
//!     configured key order (keys compared by *equivalence* under that order; a
//!     byte-different but equivalent key is drift, not a violation);
//!   * the same after close + reopen (and for a second instance opened on the file);
//!   * every page of the file is referenced exactly once (tree node, overflow chain,
//!     free-list trunk, free-list entry) and the header's free count equals the
//!     number of free-list entries;
//!   * no panic, no error from an operation an ordered map accepts.
//! Anything else (node counts, split points, which page number is reused, whether
//! cached nodes and file agree) is only reported as conformance drift -- unless a
//! confirming read through a fresh instance shows a wrong answer.

use std::cmp::Ordering;
use std::collections::{BTreeMap, HashMap};
use std::ops::Bound;
use std::path::{Path, PathBuf};
use std::sync::Arc;

use serde::{Deserialize, Serialize};
use serde_json::{json, Value};
use surrealkv::bplustree::tree::DiskBPlusTree;
use surrealkv::verif::btree::PageAccounting;
use surrealkv::{BytewiseComparator, Comparator, LSMIterator, TimestampComparator};

// ------------------------------------------------------------------------------------------
// key orders (the driver's own, independent of src/comparator.rs)

#[derive(Clone, Copy, PartialEq, Eq, Hash, Debug, Serialize, Deserialize)]
pub enum Cmp {
	#[serde(rename = "bytewise")]
	Bytewise,
	#[serde(rename = "ts")]
	Ts,
}

impl Cmp {
	pub fn name(self) -> &'static str {
		match self {
			Cmp::Bytewise => "bytewise",
			Cmp::Ts => "ts",
		}
	}
	pub fn real(self) -> Arc<dyn Comparator> {
		match self {
			Cmp::Bytewise => Arc::new(BytewiseComparator::default()),
			Cmp::Ts => Arc::new(TimestampComparator::new(Arc::new(BytewiseComparator::default()))),
		}
	}
	/// The configured key order, as the property understands it:
	/// bytewise = lexicographic; ts = (user key ascending, timestamp descending, sequence number descending - since
	/// repository commit 5c1a8fa two versions with one timestamp are two keys) over encoded internal keys
	/// `user ++ trailer(8) = seq << 8 | kind ++ timestamp(8, big endian)`; the kind byte does not take part.
	pub fn order(self, a: &[u8], b: &[u8]) -> Ordering {
		match self {
			Cmp::Bytewise => a.cmp(b),
			Cmp::Ts => {
				let (ua, ta, sa) = split_ts(a);
				let (ub, tb, sb) = split_ts(b);
				ua.cmp(ub).then(tb.cmp(&ta)).then(sb.cmp(&sa))
			}
		}
	}
}

fn split_ts(k: &[u8]) -> (&[u8], u64, u64) {
	assert!(k.len() >= 16, "ts-ordered keys are encoded internal keys (>= 16 bytes)");
	let n = k.len() - 16;
	let mut t = [0u8; 8];
	t.copy_from_slice(&k[n + 8..]);
	let mut tr = [0u8; 8];
	tr.copy_from_slice(&k[n..n + 8]);
	(&k[..n], u64::from_be_bytes(t), u64::from_be_bytes(tr) >> 8)
}

/// A key of the ordered-map oracle: bytes + the order they live under.
#[derive(Clone, Debug)]
pub struct OKey {
	pub cmp: Cmp,
	pub bytes: Vec<u8>,
}
impl PartialEq for OKey {
	fn eq(&self, o: &Self) -> bool {
		self.cmp.order(&self.bytes, &o.bytes) == Ordering::Equal
	}
}
impl Eq for OKey {}
impl PartialOrd for OKey {
	fn partial_cmp(&self, o: &Self) -> Option<Ordering> {
		Some(self.cmp(o))
	}
}
impl Ord for OKey {
	fn cmp(&self, o: &Self) -> Ordering {
		self.cmp.order(&self.bytes, &o.bytes)
	}
}

pub type Model = BTreeMap<OKey, (Vec<u8>, Vec<u8>)>;

// ------------------------------------------------------------------------------------------
// model names -> bytes

/// A key as the spec / the generators name it.
/// `g` = group (user key id), `t` = version index inside the group, `len` = total
/// length in bytes of the stored key, `alias` = variant that is *equal under the ts
/// order* but different in bytes (other kind byte in the trailer); ignored by the bytewise mapping.
#[derive(Clone, Copy, PartialEq, Eq, Hash, Debug, Serialize, Deserialize, PartialOrd, Ord)]
pub struct KeySpec {
	pub g: u32,
	pub t: u8,
	pub len: u32,
	#[serde(default)]
	pub alias: u8,
}

pub const TS_VALUES: [u64; 4] = [u64::MAX, 1 << 40, 7, 0];

fn filler(seed: u32, n: usize, out: &mut Vec<u8>) {
	// content depends on the key identity and the position, so that a chain page
	// that ends up under the wrong key is visible in the bytes
	let mut x = seed.wrapping_mul(2654435761).wrapping_add(12345);
	for i in 0..n {
		x = x.wrapping_mul(1664525).wrapping_add(1013904223);
		out.push(((x >> 24) as u8) ^ (i as u8));
	}
}

pub fn key_bytes(cmp: Cmp, k: &KeySpec) -> Vec<u8> {
	let mut v = Vec::with_capacity(k.len as usize);
	match cmp {
		Cmp::Bytewise => {
			// len 0 is the empty key (only meaningful for g = 0, t = 0)
			if k.len == 0 {
				return v;
			}
			v.extend_from_slice(&(k.g as u16).to_be_bytes());
			v.push(k.t);
			if (k.len as usize) > 3 {
				filler(k.g * 16 + k.t as u32, k.len as usize - 3, &mut v);
			}
		}
		Cmp::Ts => {
			let ulen = (k.len as usize).saturating_sub(16).max(2);
			v.extend_from_slice(&(k.g as u16).to_be_bytes());
			filler(k.g * 16 + 15, ulen - 2, &mut v);
			// an alias differs in the kind byte only: the same key under the ts order
			let trailer: u64 = ((1000 + k.g as u64 * 8 + k.t as u64) << 8) | [2u64, 0, 6, 3][k.alias as usize % 4];
			v.extend_from_slice(&trailer.to_be_bytes());
			v.extend_from_slice(&TS_VALUES[k.t as usize % 4].to_be_bytes());
		}
	}
	v
}

#[derive(Clone, Copy, PartialEq, Eq, Debug, Serialize, Deserialize)]
pub struct ValSpec {
	pub len: u32,
	/// distinguishes successive values written to one key
	pub stamp: u32,
}

pub fn val_bytes(k: &KeySpec, v: &ValSpec) -> Vec<u8> {
	let mut out = Vec::with_capacity(v.len as usize);
	let tag = format!("<{}.{}#{}>", k.g, k.t, v.stamp);
	let mut body = Vec::with_capacity(v.len as usize);
	filler(k.g * 64 + k.t as u32 * 16 + 7 + v.stamp.wrapping_mul(977), v.len as usize, &mut body);
	for (i, b) in body.into_iter().enumerate() {
		out.push(if i < tag.len() {
			tag.as_bytes()[i]
		} else {
			b
		});
	}
	out
}

/// 30-bit value identity for traces (TLC integers are 32 bit).
pub fn h30(b: &[u8]) -> u32 {
	// never 0 (0 = "absent" in traces), below 2^31
	((fnv1a(b) & 0x3fff_ffff) as u32) | 0x4000_0000
}

pub fn fnv1a(b: &[u8]) -> u64 {
	let mut h: u64 = 0xcbf29ce484222325;
	for &x in b {
		h ^= x as u64;
		h = h.wrapping_mul(0x100000001b3);
	}
	h
}

// ------------------------------------------------------------------------------------------
// cases

#[derive(Clone, Debug, Serialize, Deserialize)]
pub enum BoundSpec {
	#[serde(rename = "unb")]
	Unbounded,
	#[serde(rename = "inc")]
	Included(KeySpec),
	#[serde(rename = "exc")]
	Excluded(KeySpec),
}

#[derive(Clone, Debug, Serialize, Deserialize)]
#[serde(tag = "op")]
pub enum Op {
	Insert {
		k: KeySpec,
		v: ValSpec,
	},
	Delete {
		k: KeySpec,
	},
	Get {
		k: KeySpec,
	},
	Range {
		lo: BoundSpec,
		hi: BoundSpec,
	},
	/// full cursor scan: seek_first + next*, seek_last + prev*
	Scan,
	/// cursor: seek(k) then a few next / prev
	Seek {
		k: KeySpec,
		fwd: u8,
		back: u8,
	},
	/// close + open, then full read-back and ledger
	Reopen,
	/// probe: full read-back through a *second* instance opened on the same file
	Fresh,
	/// page ledger now
	Ledger,
	/// full read-back (get of every stored key + unbounded range) through the live instance
	Audit,
}

impl Op {
	pub fn mutates(&self) -> bool {
		matches!(self, Op::Insert { .. } | Op::Delete { .. })
	}
	pub fn name(&self) -> &'static str {
		match self {
			Op::Insert {
				..
			} => "Insert",
			Op::Delete {
				..
			} => "Delete",
			Op::Get {
				..
			} => "Get",
			Op::Range {
				..
			} => "Range",
			Op::Scan => "Scan",
			Op::Seek {
				..
			} => "Seek",
			Op::Reopen => "Reopen",
			Op::Fresh => "Fresh",
			Op::Ledger => "Ledger",
			Op::Audit => "Audit",
		}
	}
}

#[derive(Clone, Debug, Default, Serialize, Deserialize)]
pub struct Case {
	pub id: String,
	pub cmp: Option<Cmp>,
	/// preload (judged like `ops`, but its result is cached per worker)
	#[serde(default)]
	pub pre: Vec<Op>,
	pub ops: Vec<Op>,
	/// read-only probes run after the last op
	#[serde(default)]
	pub probes: Vec<Op>,
	/// run the page ledger after every n-th mutating step (0 = only where `Ledger` says)
	#[serde(default)]
	pub ledger_every: u32,
	/// full read-back after every n-th mutating step
	#[serde(default)]
	pub audit_every: u32,
	/// the spec's ordered map after the last op (cross-check of the driver's oracle)
	#[serde(default, skip_serializing_if = "Option::is_none")]
	pub want_scan: Option<Vec<(KeySpec, ValSpec)>>,
	/// the spec's prediction of the page file after the last op (conformance only)
	#[serde(default, skip_serializing_if = "Option::is_none")]
	pub shape: Option<Value>,
	/// keys of the spec, in spec order (index i = key i+1), for shape comparison
	#[serde(default, skip_serializing_if = "Vec::is_empty")]
	pub universe: Vec<KeySpec>,
	/// value length of class c = val_lens[c-1]
	#[serde(default, skip_serializing_if = "Vec::is_empty")]
	pub val_lens: Vec<u32>,
	/// what the spec says about this behaviour: st, fired quirks, branches (informational)
	#[serde(default, skip_serializing_if = "Option::is_none")]
	pub spec: Option<Value>,
}

impl Case {
	pub fn cmp(&self) -> Cmp {
		self.cmp.unwrap_or(Cmp::Bytewise)
	}
}

/// What went wrong in a case (the first violation ends the case).
#[derive(Clone, Debug, Serialize, Deserialize)]
pub struct Finding {
	pub kind: String,
	/// index into pre ++ ops ++ probes
	pub step: usize,
	pub detail: String,
	/// structural facts for the signature (never free text)
	pub facts: Value,
}

#[derive(Default, Debug, Serialize, Deserialize)]
pub struct CaseReport {
	pub steps: u64,
	pub violation: Option<Finding>,
	pub drift: Vec<Finding>,
	/// the driver's oracle disagrees with the spec's ghost map: the tooling is wrong
	pub tool_error: Option<String>,
	#[serde(skip)]
	pub trace: Vec<Value>,
	pub stats: Stats,
}

#[derive(Default, Debug, Clone, Serialize, Deserialize)]
pub struct Stats {
	pub max_height: u32,
	pub max_pages: u64,
	pub max_free: u64,
	pub max_trunks: u64,
	pub max_chain: u64,
	pub key_chain_seen: u64,
	pub reopens: u64,
	pub ledgers: u64,
	pub reads: u64,
	pub node_growth: u64,
	pub node_shrink: u64,
	pub height_shrinks: u64,
	pub free_reuse: u64,
	pub empty_leaf_seen: u64,
	pub shapes_compared: u64,
	pub shapes_equal: u64,
}

impl Stats {
	pub fn absorb(&mut self, o: &Stats) {
		self.max_height = self.max_height.max(o.max_height);
		self.max_pages = self.max_pages.max(o.max_pages);
		self.max_free = self.max_free.max(o.max_free);
		self.max_trunks = self.max_trunks.max(o.max_trunks);
		self.max_chain = self.max_chain.max(o.max_chain);
		self.key_chain_seen += o.key_chain_seen;
		self.reopens += o.reopens;
		self.ledgers += o.ledgers;
		self.reads += o.reads;
		self.node_growth += o.node_growth;
		self.node_shrink += o.node_shrink;
		self.height_shrinks += o.height_shrinks;
		self.free_reuse += o.free_reuse;
		self.empty_leaf_seen += o.empty_leaf_seen;
		self.shapes_compared += o.shapes_compared;
		self.shapes_equal += o.shapes_equal;
	}
}

/// State after a preload, kept per worker.
#[derive(Clone)]
pub struct Snapshot {
	pub file: Vec<u8>,
	pub model: Model,
	pub roles: HashMap<u64, &'static str>,
	pub leaves: HashMap<u64, Vec<u64>>,
	pub nodes: u64,
	pub height: u32,
	pub total: u64,
}

pub type PreCache = HashMap<(Cmp, u64), Snapshot>;

pub struct Exec {
	pub cmp: Cmp,
	pub path: PathBuf,
	pub tree: Option<DiskBPlusTree>,
	pub model: Model,
	pub trace_on: bool,
	/// trace mode: rank of every key of the case under the key order (1-based)
	pub ranks: BTreeMap<OKey, u32>,
	/// page -> role at the previous ledger
	prev_roles: HashMap<u64, &'static str>,
	prev_nodes: u64,
	prev_height: u32,
	prev_total: u64,
	/// nodes after - nodes before, for the last ledger
	nodes_delta: i64,
	last_mut: &'static str,
	/// cached nodes and file decode differently since: (node kind, operation, nodes_delta, leaf_borrow)
	div_since: Option<(&'static str, &'static str, i64, bool)>,
	/// leaf page -> key hashes at the previous ledger
	prev_leaves: HashMap<u64, Vec<u64>>,
	/// the last mutation moved a key between two leaves that both still exist (a leaf-level borrow)
	leaf_borrow: bool,
}

pub fn hexs(b: &[u8]) -> String {
	let n = b.len().min(24);
	let mut s: String = b[..n].iter().map(|x| format!("{:02x}", x)).collect();
	if b.len() > n {
		s.push_str(&format!("..({}B)", b.len()));
	}
	s
}

fn vshow(v: &Option<Vec<u8>>) -> String {
	match v {
		None => "ABSENT".into(),
		Some(b) => hexs(b),
	}
}

fn kclass(len: usize) -> &'static str {
	// structural size classes of a key (thresholds of the page format)
	if len == 0 {
		"empty"
	} else if len <= 486 {
		"small"
	} else if len <= 996 {
		"local"
	} else if len <= 4096 {
		"overflow"
	} else {
		"overpage"
	}
}

type Pairs = Vec<(Vec<u8>, Vec<u8>)>;

impl Exec {
	pub fn new(cmp: Cmp, path: &Path) -> Self {
		Exec {
			cmp,
			path: path.to_path_buf(),
			tree: None,
			model: BTreeMap::new(),
			trace_on: false,
			ranks: BTreeMap::new(),
			prev_roles: HashMap::new(),
			prev_nodes: 0,
			prev_height: 0,
			prev_total: 0,
			nodes_delta: 0,
			last_mut: "",
			div_since: None,
			prev_leaves: HashMap::new(),
			leaf_borrow: false,
		}
	}

	/// Structural facts about a divergence between cached nodes and file, if one is known.
	fn div_facts(&self, facts: &mut Value) {
		if let Some((kind, after, nd, lb)) = self.div_since {
			facts["mem_disk_differ_in"] = json!(kind);
			facts["after"] = json!(after);
			facts["nodes_delta"] = json!(nd);
			facts["leaf_borrow"] = json!(lb);
		}
	}

	fn rank(&self, b: &[u8]) -> u32 {
		self.ranks.get(&self.ok(b)).copied().unwrap_or(0)
	}

	fn pairs_json(&self, got: &[(Vec<u8>, Vec<u8>)]) -> Value {
		Value::Array(got.iter().map(|(k, v)| json!([self.rank(k), h30(v)])).collect())
	}

	fn ok(&self, b: &[u8]) -> OKey {
		OKey {
			cmp: self.cmp,
			bytes: b.to_vec(),
		}
	}

	fn open(&mut self) -> Result<(), String> {
		match DiskBPlusTree::disk(&self.path, self.cmp.real()) {
			Ok(t) => {
				self.tree = Some(t);
				Ok(())
			}
			Err(e) => Err(format!("{e}")),
		}
	}

	fn bound<'a>(&self, b: &BoundSpec, store: &'a mut Vec<u8>) -> Bound<&'a [u8]> {
		match b {
			BoundSpec::Unbounded => Bound::Unbounded,
			BoundSpec::Included(k) => {
				*store = key_bytes(self.cmp, k);
				Bound::Included(&store[..])
			}
			BoundSpec::Excluded(k) => {
				*store = key_bytes(self.cmp, k);
				Bound::Excluded(&store[..])
			}
		}
	}

	/// Compare a sequence of (key, value) pairs coming from the real tree with the
	/// oracle's. Err = violation (kind, detail, facts); Ok(true) = equivalent keys
	/// with different bytes were seen (drift).
	fn cmp_seq(
		&self,
		what: &str,
		got: &[(Vec<u8>, Vec<u8>)],
		want: &[(&Vec<u8>, &Vec<u8>)],
	) -> Result<bool, (String, String, Value)> {
		let mut byte_diff = false;
		if got.len() != want.len() {
			// is the real answer the wanted one plus extra entries in front / missing a tail?
			let extra_front = got.len() == want.len() + 1
				&& got[1..].iter().zip(want.iter()).all(|((gk, gv), (wk, wv))| gk == *wk && gv == *wv);
			let prefix_only =
				got.len() < want.len() && got.iter().zip(want.iter()).all(|((gk, gv), (wk, wv))| gk == *wk && gv == *wv);
			let suffix_only = got.len() < want.len()
				&& got.iter().rev().zip(want.iter().rev()).all(|((gk, gv), (wk, wv))| gk == *wk && gv == *wv);
			return Err((
				format!("{what}_wrong_length"),
				format!("{} entries, the ordered map has {}", got.len(), want.len()),
				json!({"more": got.len() > want.len(), "extra_front": extra_front, "prefix_only": prefix_only, "suffix_only": suffix_only}),
			));
		}
		for (i, ((gk, gv), (wk, wv))) in got.iter().zip(want.iter()).enumerate() {
			if self.cmp.order(gk, wk) != Ordering::Equal {
				return Err((
					format!("{what}_wrong_key"),
					format!("entry {i}: key {} want {}", hexs(gk), hexs(wk)),
					json!({"key_class": kclass(wk.len())}),
				));
			}
			if gk != *wk {
				byte_diff = true;
			}
			if gv != *wv {
				return Err((
					format!("{what}_wrong_value"),
					format!("entry {i} key {}: value {} want {}", hexs(gk), hexs(gv), hexs(wv)),
					json!({"got_len": gv.len(), "want_len": wv.len(), "key_class": kclass(wk.len())}),
				));
			}
		}
		Ok(byte_diff)
	}

	fn want_all(&self) -> Vec<(&Vec<u8>, &Vec<u8>)> {
		self.model.values().map(|(k, v)| (k, v)).collect()
	}

	fn want_range(&self, lo: &Bound<&[u8]>, hi: &Bound<&[u8]>) -> Vec<(&Vec<u8>, &Vec<u8>)> {
		self.model
			.iter()
			.filter(|(k, _)| {
				let a = match lo {
					Bound::Unbounded => true,
					Bound::Included(x) => self.cmp.order(&k.bytes, x) != Ordering::Less,
					Bound::Excluded(x) => self.cmp.order(&k.bytes, x) == Ordering::Greater,
				};
				let b = match hi {
					Bound::Unbounded => true,
					Bound::Included(x) => self.cmp.order(&k.bytes, x) != Ordering::Greater,
					Bound::Excluded(x) => self.cmp.order(&k.bytes, x) == Ordering::Less,
				};
				a && b
			})
			.map(|(_, (k, v))| (k, v))
			.collect()
	}

	fn range_all(tree: &DiskBPlusTree, lo: Bound<&[u8]>, hi: Bound<&[u8]>) -> Result<Pairs, String> {
		let mut out = Vec::new();
		let it = tree.range((lo, hi)).map_err(|e| format!("{e}"))?;
		for r in it {
			let (k, v) = r.map_err(|e| format!("{e}"))?;
			out.push((k.to_vec(), v.to_vec()));
			if out.len() > 10_000_000 {
				return Err("range does not end".into());
			}
		}
		Ok(out)
	}

	fn cursor_all(tree: &DiskBPlusTree, forward: bool) -> Result<Pairs, String> {
		let mut it = tree.internal_iterator();
		let mut out = Vec::new();
		let mut ok = if forward {
			it.seek_first()
		} else {
			it.seek_last()
		}
		.map_err(|e| format!("{e}"))?;
		while ok {
			if !it.valid() {
				return Err("cursor returned true but valid() is false".into());
			}
			out.push((it.key().encoded().to_vec(), it.value_encoded().map_err(|e| format!("{e}"))?.to_vec()));
			if out.len() > 10_000_000 {
				return Err("cursor does not end".into());
			}
			ok = if forward {
				it.next()
			} else {
				it.prev()
			}
			.map_err(|e| format!("{e}"))?;
		}
		Ok(out)
	}

	/// Structural facts about the tree right now (for signatures).
	fn tree_facts(&self) -> Value {
		let Some(tree) = self.tree.as_ref() else { return json!({}) };
		let mem = tree.verif_page_accounting(false);
		let multi = mem.nodes.iter().any(|n| !n.is_leaf);
		let empty_leaf = multi && mem.nodes.iter().any(|n| n.is_leaf && n.key_lens.is_empty() && n.size > 0);
		json!({"empty_leaf": empty_leaf})
	}

	/// Do the cached nodes and the file decode to the same tree? Returns the kind of
	/// node in which they differ.
	fn mem_disk_divergence(mem: &PageAccounting, disk: &PageAccounting) -> Option<&'static str> {
		if !disk.problems.is_empty() {
			// the file cannot be decoded where the cache can: find the node kind from the cache's view
			for pr in &disk.problems {
				if let Some(rest) = pr.strip_prefix("node ").or_else(|| pr.strip_prefix("key chain of node ")) {
					let page: u64 = rest.split(':').next().unwrap_or("").trim().parse().unwrap_or(0);
					if let Some(n) = mem.nodes.iter().find(|n| n.page == page) {
						return Some(if n.is_leaf {
							"leaf"
						} else {
							"internal"
						});
					}
				}
			}
			return Some("unknown");
		}
		let dm: HashMap<u64, &surrealkv::verif::btree::NodeInfo> = disk.nodes.iter().map(|n| (n.page, n)).collect();
		for n in &mem.nodes {
			match dm.get(&n.page) {
				None => return Some("unknown"),
				Some(d) => {
					if d.key_hashes != n.key_hashes || d.val_lens != n.val_lens || d.children != n.children {
						return Some(if n.is_leaf {
							"leaf"
						} else {
							"internal"
						});
					}
				}
			}
		}
		None
	}

	/// Page ledger: every page referenced exactly once; free count = entries.
	/// Also: if cached nodes and file differ, confirm through a fresh instance.
	pub fn ledger(&mut self, rep: &mut CaseReport, step: usize) -> Option<Finding> {
		let tree = self.tree.as_ref().unwrap();
		let disk = tree.verif_page_accounting(true);
		let mem = tree.verif_page_accounting(false);
		rep.stats.ledgers += 1;
		let nodes = mem.nodes.len() as u64;
		self.nodes_delta = nodes as i64 - self.prev_nodes as i64;
		// did a key move between two leaves that both existed before and still exist?
		let leaves: HashMap<u64, Vec<u64>> =
			mem.nodes.iter().filter(|n| n.is_leaf).map(|n| (n.page, n.key_hashes.clone())).collect();
		self.leaf_borrow = false;
		'outer: for (p, now) in &leaves {
			if let Some(before) = self.prev_leaves.get(p) {
				for h in now.iter().filter(|h| !before.contains(h)) {
					if self.prev_leaves.iter().any(|(q, ks)| q != p && ks.contains(h) && leaves.get(q).map(|c| !c.contains(h)).unwrap_or(false)) {
						self.leaf_borrow = true;
						break 'outer;
					}
				}
			}
		}
		self.prev_leaves = leaves;
		let div = Self::mem_disk_divergence(&mem, &disk);
		match (div, self.div_since) {
			(Some(d), None) => self.div_since = Some((d, self.last_mut, self.nodes_delta, self.leaf_borrow)),
			(None, _) => self.div_since = None,
			_ => {}
		}
		if let Some(mut f) = judge_ledger(&disk, step, "disk", &self.prev_roles) {
			f.facts["nodes_delta"] = json!(self.nodes_delta);
			f.facts["after"] = json!(self.last_mut);
			f.facts["leaf_borrow"] = json!(self.leaf_borrow);
			self.div_facts(&mut f.facts);
			return Some(f);
		}
		if let Some(mut f) = judge_ledger(&mem, step, "mem", &self.prev_roles) {
			// the running instance's own view of the pages; the file itself is consistent
			f.facts["nodes_delta"] = json!(self.nodes_delta);
			rep.drift.push(f);
		}
		if let Some(d) = div {
			// mechanism finding: confirm with what a fresh instance reads from the file
			if let Some(mut f) = self.fresh(rep, step) {
				self.div_facts(&mut f.facts);
				return Some(f);
			}
			rep.drift.push(Finding {
				kind: "mem_disk_differ_unconfirmed".into(),
				step,
				detail: format!("cached nodes and file decode differently in a {d} node; a fresh instance still answers correctly"),
				facts: json!({"in": d}),
			});
		}
		let st = &mut rep.stats;
		let height = disk.nodes.iter().map(|n| n.level).max().unwrap_or(0);
		st.max_height = st.max_height.max(height);
		st.max_pages = st.max_pages.max(disk.total_pages);
		st.max_free = st.max_free.max(disk.free_entries.len() as u64);
		st.max_trunks = st.max_trunks.max(disk.trunks.len() as u64);
		let mut roles: HashMap<u64, &'static str> = HashMap::new();
		for n in &disk.nodes {
			roles.insert(
				n.page,
				if n.is_leaf {
					"leaf"
				} else {
					"internal"
				},
			);
			if n.is_leaf && n.key_lens.is_empty() && disk.nodes.len() > 1 {
				st.empty_leaf_seen += 1;
			}
			for c in &n.chains {
				st.max_chain = st.max_chain.max(c.len() as u64);
				if !n.is_leaf && !c.is_empty() {
					st.key_chain_seen += 1;
				}
				for &p in c {
					roles.insert(
						p,
						if n.is_leaf {
							"cell_chain"
						} else {
							"key_chain"
						},
					);
				}
			}
		}
		for &p in &disk.trunks {
			roles.insert(p, "trunk");
		}
		for &p in &disk.free_entries {
			roles.insert(p, "free_entry");
		}
		if self.prev_nodes != 0 {
			if nodes < self.prev_nodes {
				st.node_shrink += 1;
			}
			if nodes > self.prev_nodes {
				st.node_growth += 1;
			}
			if height < self.prev_height {
				st.height_shrinks += 1;
			}
			if disk.total_pages == self.prev_total
				&& roles.iter().any(|(p, r)| {
					matches!(*r, "leaf" | "internal" | "cell_chain" | "key_chain")
						&& matches!(self.prev_roles.get(p), Some(&"free_entry") | Some(&"trunk"))
				}) {
				st.free_reuse += 1;
			}
		}
		self.prev_roles = roles;
		self.prev_nodes = nodes;
		self.prev_height = height;
		self.prev_total = disk.total_pages;
		None
	}

	/// Full read-back through get + unbounded range on `tree`.
	fn read_back(&self, tree: &DiskBPlusTree, rep: &mut CaseReport, step: usize, what: &str) -> Option<Finding> {
		let got = match Self::range_all(tree, Bound::Unbounded, Bound::Unbounded) {
			Ok(g) => g,
			Err(e) => {
				return Some(Finding {
					kind: format!("{what}_scan_error"),
					step,
					detail: e,
					facts: json!({}),
				})
			}
		};
		let want = self.want_all();
		rep.stats.reads += 1;
		match self.cmp_seq(&format!("{what}_scan"), &got, &want) {
			Err((kind, detail, facts)) => {
				return Some(Finding {
					kind,
					step,
					detail,
					facts,
				})
			}
			Ok(true) => rep.drift.push(Finding {
				kind: "equivalent_key_bytes_differ".into(),
				step,
				detail: String::new(),
				facts: json!({}),
			}),
			Ok(false) => {}
		}
		for (k, v) in self.model.values() {
			rep.stats.reads += 1;
			match tree.get(k) {
				Ok(Some(g)) if g.as_ref() == &v[..] => {}
				Ok(g) => {
					return Some(Finding {
						kind: format!("{what}_get_wrong"),
						step,
						detail: format!("get {} = {} want {}", hexs(k), vshow(&g.map(|b| b.to_vec())), hexs(v)),
						facts: json!({"key_class": kclass(k.len())}),
					})
				}
				Err(e) => {
					return Some(Finding {
						kind: format!("{what}_get_error"),
						step,
						detail: format!("get {}: {e}", hexs(k)),
						facts: json!({"key_class": kclass(k.len())}),
					})
				}
			}
		}
		None
	}

	/// What a second instance opened on the file answers (nothing but the file).
	fn fresh(&self, rep: &mut CaseReport, step: usize) -> Option<Finding> {
		match DiskBPlusTree::disk(&self.path, self.cmp.real()) {
			Err(e) => Some(Finding {
				kind: "reopen_failed".into(),
				step,
				detail: format!("{e}"),
				facts: json!({"second_instance": true}),
			}),
			Ok(t2) => self.read_back(&t2, rep, step, "reopen"),
		}
	}

	fn fail(rep: &mut CaseReport, kind: impl Into<String>, step: usize, detail: String, facts: Value) {
		rep.violation = Some(Finding {
			kind: kind.into(),
			step,
			detail,
			facts,
		});
	}

	/// One operation. Returns false when the case must stop (violation recorded).
	fn step(&mut self, op: &Op, i: usize, rep: &mut CaseReport) -> bool {
		rep.steps += 1;
		let mut ev = Value::Null;
		match op {
			Op::Insert {
				k,
				v,
			} => {
				let kb = key_bytes(self.cmp, k);
				let vb = val_bytes(k, v);
				self.last_mut = "Insert";
				let r = self.tree.as_mut().unwrap().insert(&kb, &vb);
				if let Err(e) = r {
					let mut facts = json!({"key_class": kclass(kb.len())});
					facts["tree"] = self.tree_facts();
					Self::fail(rep, "insert_rejected", i, format!("insert {} ({} B value): {e}", hexs(&kb), vb.len()), facts);
					return false;
				}
				let ok = self.ok(&kb);
				let existed = self.model.contains_key(&ok);
				// an ordered map keeps the key it already has and replaces the value
				match self.model.get_mut(&ok) {
					Some(e) => e.1 = vb.clone(),
					None => {
						self.model.insert(ok, (kb.clone(), vb.clone()));
					}
				}
				if self.trace_on {
					let _ = existed;
					ev = json!({"op": "I", "k": self.rank(&kb), "kl": kb.len(), "vl": vb.len(), "vh": h30(&vb)});
				}
			}
			Op::Delete {
				k,
			} => {
				let kb = key_bytes(self.cmp, k);
				self.last_mut = "Delete";
				let r = self.tree.as_mut().unwrap().delete(&kb);
				let want = self.model.remove(&self.ok(&kb)).map(|e| e.1);
				let mut res: i64 = 0;
				match r {
					Ok(got) => {
						let got = got.map(|b| b.to_vec());
						if let Some(g) = &got {
							res = h30(g) as i64;
						}
						if got != want {
							Self::fail(
								rep,
								"delete_wrong_result",
								i,
								format!("delete {} returned {} want {}", hexs(&kb), vshow(&got), vshow(&want)),
								json!({"got_some": got.is_some(), "want_some": want.is_some(), "key_class": kclass(kb.len())}),
							);
							return false;
						}
					}
					Err(e) => {
						Self::fail(rep, "delete_rejected", i, format!("delete {}: {e}", hexs(&kb)), json!({"key_class": kclass(kb.len())}));
						return false;
					}
				}
				if self.trace_on {
					ev = json!({"op": "D", "k": self.rank(&kb), "kl": kb.len(), "res": res});
				}
			}
			Op::Get {
				k,
			} => {
				let kb = key_bytes(self.cmp, k);
				let want = self.model.get(&self.ok(&kb)).map(|e| e.1.clone());
				rep.stats.reads += 1;
				let mut res: i64 = 0;
				match self.tree.as_ref().unwrap().get(&kb) {
					Ok(got) => {
						let got = got.map(|b| b.to_vec());
						if let Some(g) = &got {
							res = h30(g) as i64;
						}
						if got != want {
							Self::fail(
								rep,
								"get_wrong",
								i,
								format!("get {} = {} want {}", hexs(&kb), vshow(&got), vshow(&want)),
								json!({"got_some": got.is_some(), "want_some": want.is_some(), "key_class": kclass(kb.len())}),
							);
							return false;
						}
					}
					Err(e) => {
						Self::fail(rep, "get_error", i, format!("get {}: {e}", hexs(&kb)), json!({"key_class": kclass(kb.len())}));
						return false;
					}
				}
				if self.trace_on {
					ev = json!({"op": "G", "k": self.rank(&kb), "res": res});
				}
			}
			Op::Range {
				lo,
				hi,
			} => {
				let (mut s1, mut s2) = (Vec::new(), Vec::new());
				let lob = self.bound(lo, &mut s1);
				let hib = self.bound(hi, &mut s2);
				let want = self.want_range(&lob, &hib);
				rep.stats.reads += 1;
				let got = Self::range_all(self.tree.as_ref().unwrap(), lob, hib);
				let lo_kind = match lo {
					BoundSpec::Unbounded => "unb",
					BoundSpec::Included(_) => "inc",
					BoundSpec::Excluded(_) => "exc",
				};
				let lo_empty = matches!(&lob, Bound::Included(x) | Bound::Excluded(x) if x.is_empty());
				let mut res = Value::Null;
				match got {
					Err(e) => {
						Self::fail(rep, "range_error", i, e, json!({"lo": lo_kind}));
						return false;
					}
					Ok(got) => match {
						if self.trace_on {
							res = self.pairs_json(&got);
						}
						self.cmp_seq("range", &got, &want)
					} {
						Err((kind, detail, mut facts)) => {
							facts["lo"] = json!(lo_kind);
							facts["lo_empty_key"] = json!(lo_empty);
							Self::fail(rep, kind, i, detail, facts);
							return false;
						}
						Ok(true) => rep.drift.push(Finding {
							kind: "equivalent_key_bytes_differ".into(),
							step: i,
							detail: String::new(),
							facts: json!({}),
						}),
						Ok(false) => {}
					},
				}
				if self.trace_on {
					let ks = |b: &BoundSpec| match b {
						BoundSpec::Unbounded => json!({"kind": "unb", "k": 0}),
						BoundSpec::Included(k) => json!({"kind": "inc", "k": self.rank(&key_bytes(self.cmp, k))}),
						BoundSpec::Excluded(k) => json!({"kind": "exc", "k": self.rank(&key_bytes(self.cmp, k))}),
					};
					ev = json!({"op": "Q", "lo": ks(lo), "hi": ks(hi), "res": res});
				}
			}
			Op::Scan => {
				let want = self.want_all();
				let mut seen = Vec::new();
				for fwd in [true, false] {
					rep.stats.reads += 1;
					let what = if fwd {
						"cursor_fwd"
					} else {
						"cursor_back"
					};
					match Self::cursor_all(self.tree.as_ref().unwrap(), fwd) {
						Err(e) => {
							Self::fail(rep, format!("{what}_error"), i, e, json!({"class": "cursor", "tree": self.tree_facts()}));
							return false;
						}
						Ok(mut got) => {
							if !fwd {
								got.reverse();
							}
							if self.trace_on {
								seen.push(self.pairs_json(&got));
							}
							if let Err((kind, detail, mut facts)) = self.cmp_seq(what, &got, &want) {
								facts["class"] = json!("cursor");
								facts["tree"] = self.tree_facts();
								Self::fail(rep, kind, i, detail, facts);
								return false;
							}
						}
					}
				}
				if self.trace_on {
					ev = json!({"op": "S", "res": seen[0], "back": seen[1]});
				}
			}
			Op::Seek {
				k,
				fwd,
				back,
			} => {
				let kb = key_bytes(self.cmp, k);
				// the ordered map's answer: entries >= k in order; then stepping back
				let all = self.want_all();
				let start = all.partition_point(|(x, _)| self.cmp.order(x, &kb) == Ordering::Less);
				rep.stats.reads += 1;
				let tree = self.tree.as_ref().unwrap();
				let mut it = tree.internal_iterator();
				let mut pos = start as i64;
				let mut ok = match it.seek(&kb) {
					Ok(b) => b,
					Err(e) => {
						Self::fail(rep, "seek_error", i, format!("{e}"), json!({"class": "cursor", "tree": self.tree_facts()}));
						return false;
					}
				};
				let mut moves: Vec<bool> = vec![true; *fwd as usize];
				moves.extend(vec![false; *back as usize]);
				let mut mi = 0;
				loop {
					let want_valid = pos >= 0 && (pos as usize) < all.len();
					if ok != want_valid {
						Self::fail(
							rep,
							"seek_validity_wrong",
							i,
							format!("cursor valid={ok} at position {pos} of {} after {mi} moves from seek({})", all.len(), hexs(&kb)),
							json!({"class": "cursor", "want_valid": want_valid, "tree": self.tree_facts()}),
						);
						return false;
					}
					if !ok {
						break; // an exhausted cursor's further behaviour is left open
					}
					let gk = it.key().encoded().to_vec();
					let gv = it.value_encoded().map(|v| v.to_vec()).unwrap_or_default();
					let (wk, wv) = all[pos as usize];
					if self.cmp.order(&gk, wk) != Ordering::Equal || &gv != wv {
						Self::fail(
							rep,
							"seek_wrong_entry",
							i,
							format!("cursor at {} want {} after {mi} moves", hexs(&gk), hexs(wk)),
							json!({"class": "cursor", "tree": self.tree_facts()}),
						);
						return false;
					}
					if mi >= moves.len() {
						break;
					}
					let r = if moves[mi] {
						pos += 1;
						it.next()
					} else {
						pos -= 1;
						it.prev()
					};
					mi += 1;
					ok = match r {
						Ok(b) => b,
						Err(e) => {
							Self::fail(rep, "seek_error", i, format!("{e}"), json!({"class": "cursor", "tree": self.tree_facts()}));
							return false;
						}
					};
				}
			}
			Op::Reopen => {
				self.tree = None; // Drop = close()
				if let Err(e) = self.open() {
					let mut facts = json!({"second_instance": false});
					self.div_facts(&mut facts);
					Self::fail(rep, "reopen_failed", i, e, facts);
					return false;
				}
				rep.stats.reopens += 1;
				let tree = self.tree.take().unwrap();
				let f = self.read_back(&tree, rep, i, "reopen");
				self.tree = Some(tree);
				if let Some(mut f) = f {
					self.div_facts(&mut f.facts);
					rep.violation = Some(f);
					return false;
				}
				if let Some(f) = self.ledger(rep, i) {
					rep.violation = Some(f);
					return false;
				}
				if self.trace_on {
					let got = Self::range_all(self.tree.as_ref().unwrap(), Bound::Unbounded, Bound::Unbounded).unwrap_or_default();
					ev = json!({"op": "R", "res": self.pairs_json(&got)});
				}
			}
			Op::Fresh => {
				if let Some(mut f) = self.fresh(rep, i) {
					self.div_facts(&mut f.facts);
					rep.violation = Some(f);
					return false;
				}
			}
			Op::Ledger => {
				if let Some(f) = self.ledger(rep, i) {
					rep.violation = Some(f);
					return false;
				}
			}
			Op::Audit => {
				let tree = self.tree.take().unwrap();
				let f = self.read_back(&tree, rep, i, "live");
				self.tree = Some(tree);
				if let Some(f) = f {
					rep.violation = Some(f);
					return false;
				}
			}
		}
		if self.trace_on && !ev.is_null() {
			if op.mutates() || matches!(op, Op::Reopen) {
				let a = self.tree.as_ref().unwrap().verif_page_accounting(true);
				ev["pages"] = ledger_counts(&a);
			}
			rep.trace.push(ev);
		}
		true
	}

	fn snapshot(&self) -> Option<Snapshot> {
		// restoring a file image is a reopen: only equivalent to running the preload when the
		// cached nodes and the file agree
		if self.div_since.is_some() {
			return None;
		}
		let file = std::fs::read(&self.path).ok()?;
		Some(Snapshot {
			file,
			model: self.model.clone(),
			roles: self.prev_roles.clone(),
			leaves: self.prev_leaves.clone(),
			nodes: self.prev_nodes,
			height: self.prev_height,
			total: self.prev_total,
		})
	}

	/// Run one case. Panics of the code under test are caught by the caller.
	pub fn run(&mut self, case: &Case, rep: &mut CaseReport, cache: &mut PreCache) {
		let mut base = 0usize;
		let mut mutations: u32 = 0;
		let prekey = if case.pre.is_empty() {
			None
		} else {
			Some((self.cmp, fnv1a(serde_json::to_string(&case.pre).unwrap().as_bytes())))
		};
		let mut restored = false;
		if let Some(k) = &prekey {
			if let Some(s) = cache.get(k) {
				std::fs::write(&self.path, &s.file).expect("write preload image");
				self.model = s.model.clone();
				self.prev_roles = s.roles.clone();
				self.prev_leaves = s.leaves.clone();
				self.prev_nodes = s.nodes;
				self.prev_height = s.height;
				self.prev_total = s.total;
				restored = true;
				base = case.pre.len();
			}
		}
		if let Err(e) = self.open() {
			Self::fail(rep, "open_failed", 0, e, json!({"fresh": !restored}));
			return;
		}
		if !restored && !case.pre.is_empty() {
			for (i, op) in case.pre.iter().enumerate() {
				if !self.step(op, i, rep) {
					return;
				}
				if op.mutates() && case.ledger_every > 0 {
					if let Some(f) = self.ledger(rep, i) {
						rep.violation = Some(f);
						return;
					}
				}
			}
			base = case.pre.len();
			if let (Some(k), Some(s)) = (prekey, self.snapshot()) {
				cache.insert(k, s);
			}
		}
		for (j, op) in case.ops.iter().enumerate() {
			let i = base + j;
			if !self.step(op, i, rep) {
				return;
			}
			if op.mutates() {
				mutations += 1;
				if case.ledger_every > 0 && mutations % case.ledger_every == 0 {
					if let Some(f) = self.ledger(rep, i) {
						rep.violation = Some(f);
						return;
					}
				}
				if case.audit_every > 0 && mutations % case.audit_every == 0 {
					let tree = self.tree.take().unwrap();
					let f = self.read_back(&tree, rep, i, "live");
					self.tree = Some(tree);
					if let Some(f) = f {
						rep.violation = Some(f);
						return;
					}
				}
			}
		}
		base += case.ops.len();
		// the spec's ghost map and the driver's oracle must be the same map
		if let Some(ws) = &case.want_scan {
			let mine: Vec<(Vec<u8>, Vec<u8>)> = self.model.values().cloned().collect();
			let theirs: Vec<(Vec<u8>, Vec<u8>)> =
				ws.iter().map(|(k, v)| (key_bytes(self.cmp, k), val_bytes(k, v))).collect();
			if mine != theirs {
				rep.tool_error = Some(format!(
					"driver oracle ({} entries) differs from the spec's map ({} entries) in case {}",
					mine.len(),
					theirs.len(),
					case.id
				));
				return;
			}
		}
		// (a state the spec calls "corrupt" -- reopened over a stale separator chain -- has no modelled layout)
		let spec_ok = case.spec.as_ref().map(|sp| sp["st"] == "ok").unwrap_or(true);
		if let (Some(shape), true) = (&case.shape, spec_ok) {
			// the spec models the nodes as the running instance holds them (full keys)
			let a = self.tree.as_ref().unwrap().verif_page_accounting(false);
			rep.stats.shapes_compared += 1;
			match crate::tlcin::shape_diff(self.cmp, case, shape, &a) {
				None => rep.stats.shapes_equal += 1,
				Some(d) => rep.drift.push(Finding {
					kind: "shape_differs_from_spec".into(),
					step: base.saturating_sub(1),
					detail: d,
					facts: json!({}),
				}),
			}
		}
		for (j, op) in case.probes.iter().enumerate() {
			if !self.step(op, base + j, rep) {
				return;
			}
		}
	}
}

pub fn ledger_counts(a: &PageAccounting) -> Value {
	let ovf: usize = a.nodes.iter().map(|n| n.chains.iter().map(|c| c.len()).sum::<usize>()).sum();
	json!({
		"total": a.total_pages,
		"nodes": a.nodes.len(),
		"ovf": ovf,
		"trunks": a.trunks.len(),
		"free": a.free_entries.len(),
		"count": a.free_page_count,
	})
}

/// The conservation law, on what the walk found.
pub fn judge_ledger(
	a: &PageAccounting,
	step: usize,
	view: &str,
	prev_roles: &HashMap<u64, &'static str>,
) -> Option<Finding> {
	let f = |kind: &str, detail: String, facts: Value| {
		Some(Finding {
			kind: kind.into(),
			step,
			detail,
			facts,
		})
	};
	if !a.problems.is_empty() {
		return f("page_walk_failed", format!("[{view}] {}", a.problems.join("; ")), json!({"view": view}));
	}
	let total = a.total_pages;
	let mut refs: Vec<Vec<&'static str>> = vec![Vec::new(); total as usize];
	let mut oob = Vec::new();
	{
		let mut add = |p: u64, who: &'static str| {
			if p == 0 || p >= total {
				oob.push((p, who));
			} else {
				refs[p as usize].push(who);
			}
		};
		for n in &a.nodes {
			add(
				n.page,
				if n.is_leaf {
					"leaf"
				} else {
					"internal"
				},
			);
			for c in &n.chains {
				for &p in c {
					add(
						p,
						if n.is_leaf {
							"cell_chain"
						} else {
							"key_chain"
						},
					);
				}
			}
		}
		for &p in &a.trunks {
			add(p, "trunk");
		}
		for &p in &a.free_entries {
			add(p, "free_entry");
		}
	}
	if let Some((p, who)) = oob.first() {
		return f(
			"page_out_of_range",
			format!("[{view}] page {p} referenced as {who}, file has {total} pages"),
			json!({"view": view, "as": who}),
		);
	}
	for p in 1..total as usize {
		if refs[p].len() > 1 {
			let mut who = refs[p].clone();
			who.sort();
			return f(
				"page_referenced_twice",
				format!("[{view}] page {p} is referenced as {:?}", who),
				json!({"view": view, "as": who, "was": prev_roles.get(&(p as u64)).copied().unwrap_or("none")}),
			);
		}
	}
	let leaked: Vec<usize> = (1..total as usize).filter(|&p| refs[p].is_empty()).collect();
	if !leaked.is_empty() {
		let mut was: Vec<&str> = leaked.iter().map(|p| prev_roles.get(&(*p as u64)).copied().unwrap_or("none")).collect();
		was.sort();
		was.dedup();
		return f(
			"page_leaked",
			format!(
				"[{view}] {} of {} pages are neither reachable nor on the free list: {:?} (before the step they were {:?})",
				leaked.len(),
				total,
				&leaked[..leaked.len().min(12)],
				was
			),
			json!({"view": view, "was": was}),
		);
	}
	if a.free_page_count != a.free_entries.len() as u64 {
		return f(
			"free_count_mismatch",
			format!("[{view}] header free_page_count={} but the trunk pages list {} pages", a.free_page_count, a.free_entries.len()),
			json!({"view": view, "header_more": a.free_page_count > a.free_entries.len() as u64}),
		);
	}
	None
}

/// Run a case in a fresh file, catching panics.
pub fn run_case(case: &Case, dir: &Path, trace: bool, cache: &mut PreCache) -> CaseReport {
	let path = dir.join(format!("c{}.bpt", std::process::id()));
	let _ = std::fs::remove_file(&path);
	let mut ex = Exec::new(case.cmp(), &path);
	ex.trace_on = trace;
	let mut rep = CaseReport::default();
	let r = verif_harness::catch(|| ex.run(case, &mut rep, cache));
	if let Err(p) = r {
		let facts = json!({"after": ex.last_mut, "message_class": panic_class(&p)});
		rep.violation = Some(Finding {
			kind: "panic".into(),
			step: rep.steps.saturating_sub(1) as usize,
			detail: p,
			facts,
		});
	}
	if rep.violation.is_some() && std::env::var("BT_DUMP").is_ok() {
		if let Some(t) = ex.tree.as_ref() {
			dump(&t.verif_page_accounting(true));
		}
	}
	drop(ex);
	let _ = std::fs::remove_file(&path);
	rep
}

fn panic_class(p: &str) -> &'static str {
	if p.contains("split") {
		"split"
	} else if p.contains("index out of bounds") || p.contains("out of range") {
		"bounds"
	} else if p.contains("unwrap") || p.contains("expect") {
		"unwrap"
	} else {
		"other"
	}
}

pub fn dump(a: &PageAccounting) {
	eprintln!(
		"DUMP total={} root={} trunk_head={} free_count={} trunks={:?} free={:?} chain={:?}",
		a.total_pages, a.root, a.trunk_head, a.free_page_count, a.trunks, a.free_entries, a.leaf_chain
	);
	for n in &a.nodes {
		eprintln!(
			"  L{} p{} {} size={} klens={:?} vlens={:?} ch={:?} chains={:?} next={} prev={}",
			n.level,
			n.page,
			if n.is_leaf {
				"leaf"
			} else {
				"int"
			},
			n.size,
			n.key_lens,
			n.val_lens,
			n.children,
			n.chains,
			n.next,
			n.prev
		);
	}
	eprintln!("  problems={:?}", a.problems);
}

/// What must stay the same while a failing case is minimised: kind + structural facts.
fn shrink_signature(f: &Finding) -> String {
	let mut facts = f.facts.clone();
	if let Some(o) = facts.as_object_mut() {
		for k in ["nodes_delta", "view", "got_len", "want_len", "key_class", "got_some", "want_some"] {
			o.remove(k);
		}
	}
	format!("{}|{}", f.kind, facts)
}

/// Delta-debugging: smallest sub-sequence of pre ++ ops that still fails with the same kind.
pub fn shrink(case: &Case, dir: &Path) -> Case {
	let mut flat = case.clone();
	let mut all = flat.pre.clone();
	all.extend(flat.ops.clone());
	all.extend(flat.probes.clone());
	flat.pre = vec![];
	flat.probes = vec![];
	flat.ops = all;
	flat.shape = None;
	flat.want_scan = None;
	let mut cache = PreCache::new();
	let rep = run_case(&flat, dir, false, &mut cache);
	let Some(v) = rep.violation else { return case.clone() };
	let sig = shrink_signature(&v);
	let mut cur = flat;
	cur.ops.truncate(v.step + 1);
	let mut fails = |c: &Case| run_case(c, dir, false, &mut cache).violation.map(|f| shrink_signature(&f) == sig).unwrap_or(false);
	let mut chunk = (cur.ops.len() / 2).max(1);
	let t0 = std::time::Instant::now();
	let budget = std::time::Duration::from_secs(25);
	loop {
		let mut i = 0;
		let mut progressed = false;
		while i < cur.ops.len() && t0.elapsed() < budget {
			let mut t = cur.clone();
			let end = (i + chunk).min(t.ops.len());
			t.ops.drain(i..end);
			if !t.ops.is_empty() && fails(&t) {
				cur = t;
				progressed = true;
			} else {
				i += chunk;
			}
		}
		if (chunk == 1 && !progressed) || t0.elapsed() >= budget {
			break;
		}
		if !progressed {
			chunk = (chunk / 2).max(1);
		}
	}
	cur.id = format!("{}-min", case.id);
	cur
}
