//! Seeded random long programs (>= 2000 operations) over skewed key sets: sizes around
//! every threshold of the page format (local / overflow limits for leaf cells and for
//! keys in internal nodes, overflow page capacity, entries larger than a page), under
//! both key orders, with reopen at random points.
//!
//! Families (chosen by case index):
//!   small     small keys, all value sizes: splits, merges, redistribution, cell chains
//!   maxlocal  small keys, values just below / above the local limit: few cells per leaf
//!   edge      key lengths around the thresholds (keys with overflow chains in internal nodes)
//!   huge      keys of 1 - 5 KiB almost only
//!   churn     overflow values written and deleted in bulk: free-list reuse
//!   trunk     enough freed pages for several trunk pages, refilled so that trunks run empty

use std::cmp::Ordering;

use rand::rngs::StdRng;
use rand::{Rng, SeedableRng};

use crate::exec::{key_bytes, BoundSpec, Case, Cmp, KeySpec, Op, ValSpec};

pub struct GenCfg {
	pub ops: usize,
	pub groups: u32,
	/// 0 = small keys only, 1 = mixed with keys around the local / overflow thresholds, 2 = mostly huge keys
	pub key_mode: u8,
	/// 0 = mixed, 1 = mostly overflow values, 2 = around max-local
	pub val_mode: u8,
	/// per 10 000 operations
	pub reopen_rate: u32,
	pub with_empty_key: bool,
}

const KEY_LENS_EDGE: [u32; 14] = [18, 19, 40, 300, 486, 487, 980, 996, 997, 999, 1000, 1015, 1200, 5000];
const VAL_LENS: [u32; 22] =
	[0, 1, 8, 100, 300, 450, 470, 486, 500, 940, 960, 978, 996, 1010, 1024, 3072, 4083, 4100, 5120, 8200, 12288, 40000];

fn gen_key_len(rng: &mut StdRng, mode: u8) -> u32 {
	match mode {
		0 => [18, 18, 19, 24, 40, 64][rng.random_range(0..6)],
		1 => {
			if rng.random_range(0..100) < 55 {
				[18, 19, 24, 40, 300][rng.random_range(0..5)]
			} else {
				KEY_LENS_EDGE[rng.random_range(0..KEY_LENS_EDGE.len())]
			}
		}
		_ => [960, 990, 999, 1000, 1016, 1200, 2000, 5000][rng.random_range(0..8)],
	}
}

fn gen_val_len(rng: &mut StdRng, mode: u8) -> u32 {
	match mode {
		0 => {
			if rng.random_range(0..100) < 40 {
				[0, 1, 8, 8, 100][rng.random_range(0..5)]
			} else {
				VAL_LENS[rng.random_range(0..VAL_LENS.len())]
			}
		}
		1 => [8, 1024, 3072, 5120, 8200, 12288, 12288, 40000][rng.random_range(0..8)],
		_ => [8, 450, 940, 960, 978, 990, 5050, 5069][rng.random_range(0..8)],
	}
}

pub fn gen_case(seed: u64, cmp: Cmp, cfg: &GenCfg, id: String) -> Case {
	let mut rng = StdRng::seed_from_u64(seed);
	// key universe: per group one length (so that the versions of a user key share it)
	let glen: Vec<u32> = (0..cfg.groups).map(|_| gen_key_len(&mut rng, cfg.key_mode)).collect();
	let nver: u8 = if cmp == Cmp::Ts {
		4
	} else {
		2
	};
	let pick_key = |rng: &mut StdRng| -> KeySpec {
		// skew: a hot tenth of the groups gets half of the traffic
		let hot = (cfg.groups / 10).max(1);
		let g = if rng.random_range(0..100) < 50 {
			rng.random_range(0..hot)
		} else {
			rng.random_range(0..cfg.groups)
		};
		let t = rng.random_range(0..nver);
		let mut len = glen[g as usize];
		if cfg.with_empty_key && cmp == Cmp::Bytewise && g == 0 && t == 0 {
			len = 0;
		}
		KeySpec {
			g,
			t,
			len,
			alias: if cmp == Cmp::Ts && rng.random_range(0..100) < 15 {
				rng.random_range(1..3)
			} else {
				0
			},
		}
	};
	let mut ops = Vec::with_capacity(cfg.ops + 8);
	let mut stamp = 0u32;
	// phases: grow / churn / shrink, so that splits, merges and free-list reuse all happen
	let phase_len = (cfg.ops / 6).max(1);
	for i in 0..cfg.ops {
		let phase = (i / phase_len) % 3;
		let (p_ins, p_del) = match phase {
			0 => (70, 10),
			1 => (40, 35),
			_ => (15, 65),
		};
		let r = rng.random_range(0..100);
		if r < p_ins {
			stamp += 1;
			let k = pick_key(&mut rng);
			ops.push(Op::Insert {
				k,
				v: ValSpec {
					len: gen_val_len(&mut rng, cfg.val_mode),
					stamp,
				},
			});
		} else if r < p_ins + p_del {
			ops.push(Op::Delete {
				k: pick_key(&mut rng),
			});
		} else {
			match rng.random_range(0..100) {
				0..=39 => ops.push(Op::Get {
					k: pick_key(&mut rng),
				}),
				40..=69 => {
					let mut a = pick_key(&mut rng);
					let mut b = pick_key(&mut rng);
					let (ka, kb) = (key_bytes(cmp, &a), key_bytes(cmp, &b));
					let ord = cmp.order(&ka, &kb);
					if ord == Ordering::Greater {
						std::mem::swap(&mut a, &mut b);
					}
					let mk = |rng: &mut StdRng, k: KeySpec| match rng.random_range(0..5) {
						0 => BoundSpec::Unbounded,
						1 | 2 => BoundSpec::Included(k),
						_ => BoundSpec::Excluded(k),
					};
					let mut lo = mk(&mut rng, a);
					let hi = mk(&mut rng, b);
					// equal bound keys: only [k, k] is a proper range
					if ord == Ordering::Equal && !matches!(lo, BoundSpec::Unbounded) && !matches!(hi, BoundSpec::Unbounded) {
						lo = BoundSpec::Included(a);
						ops.push(Op::Range {
							lo,
							hi: BoundSpec::Included(b),
						});
					} else {
						ops.push(Op::Range {
							lo,
							hi,
						});
					}
				}
				70..=84 => ops.push(Op::Seek {
					k: pick_key(&mut rng),
					fwd: rng.random_range(0..6),
					back: rng.random_range(0..6),
				}),
				85..=92 => ops.push(Op::Scan),
				_ => ops.push(Op::Fresh),
			}
		}
		if rng.random_range(0..10_000) < cfg.reopen_rate {
			ops.push(Op::Reopen);
		}
	}
	ops.push(Op::Scan);
	ops.push(Op::Reopen);
	ops.push(Op::Scan);
	Case {
		id,
		cmp: Some(cmp),
		ops,
		ledger_every: 1,
		audit_every: 16,
		..Default::default()
	}
}

/// Free-list family: fill with large overflow values, delete (almost) everything so that
/// more than one trunk page is needed, refill partially so that trunks run empty and are
/// themselves reused.
pub fn gen_trunk_case(seed: u64, cmp: Cmp, nkeys: u32, rounds: u32, id: String) -> Case {
	let mut rng = StdRng::seed_from_u64(seed);
	let mut ops = Vec::new();
	let mut stamp = 0;
	let klen = if cmp == Cmp::Ts {
		24
	} else {
		6
	};
	let key = |i: u32| KeySpec {
		g: i / 2,
		t: (i % 2) as u8,
		len: klen,
		alias: 0,
	};
	for round in 0..rounds {
		let mut order: Vec<u32> = (0..nkeys).collect();
		for i in (1..order.len()).rev() {
			order.swap(i, rng.random_range(0..=i));
		}
		for &i in &order {
			stamp += 1;
			let len = [40000, 40000, 20000, 12288, 4083 + 486][rng.random_range(0..5)];
			ops.push(Op::Insert {
				k: key(i),
				v: ValSpec {
					len,
					stamp,
				},
			});
		}
		ops.push(Op::Ledger);
		if round % 2 == 0 {
			ops.push(Op::Reopen);
		}
		for i in (1..order.len()).rev() {
			order.swap(i, rng.random_range(0..=i));
		}
		let keep = rng.random_range(0..4) as usize;
		for &i in &order[keep..] {
			ops.push(Op::Delete {
				k: key(i),
			});
			if rng.random_range(0..40) == 0 {
				ops.push(Op::Ledger);
			}
		}
		ops.push(Op::Ledger);
		ops.push(Op::Scan);
		if round % 2 == 1 {
			ops.push(Op::Reopen);
		}
		// partial refill: drains some trunks, leaves others
		let part = rng.random_range(1..nkeys.max(2));
		for i in 0..part {
			stamp += 1;
			ops.push(Op::Insert {
				k: key(i),
				v: ValSpec {
					len: [12288, 40000, 8][rng.random_range(0..3)],
					stamp,
				},
			});
			if rng.random_range(0..40) == 0 {
				ops.push(Op::Ledger);
			}
		}
		ops.push(Op::Ledger);
		ops.push(Op::Audit);
	}
	ops.push(Op::Scan);
	ops.push(Op::Reopen);
	Case {
		id,
		cmp: Some(cmp),
		ops,
		ledger_every: 0,
		audit_every: 0,
		..Default::default()
	}
}

pub const FAMILIES: [&str; 6] = ["small", "maxlocal", "edge", "huge", "churn", "trunk"];

/// Case number `idx` of the random suite for `seed`: family, key order and size
/// parameters cycle with the index, the content is drawn from (seed, idx).
pub fn random_case(seed: u64, idx: u64, ops: usize) -> Case {
	let cmp = if idx % 2 == 0 {
		Cmp::Bytewise
	} else {
		Cmp::Ts
	};
	let fam = ((idx / 2) % FAMILIES.len() as u64) as usize;
	let var = idx / (2 * FAMILIES.len() as u64);
	let s = seed.wrapping_mul(1_000_003).wrapping_add(idx);
	let id = format!("rand/{}/{}/{}/{}", FAMILIES[fam], cmp.name(), seed, idx);
	let groups = [12u32, 40, 120][(var % 3) as usize];
	let cfg = |key_mode, val_mode, with_empty_key| GenCfg {
		ops,
		groups,
		key_mode,
		val_mode,
		reopen_rate: 100,
		with_empty_key,
	};
	match FAMILIES[fam] {
		"small" => gen_case(s, cmp, &cfg(0, 0, var % 2 == 1), id),
		"maxlocal" => gen_case(s, cmp, &cfg(0, 2, false), id),
		"edge" => gen_case(s, cmp, &cfg(1, 0, false), id),
		"huge" => gen_case(s, cmp, &cfg(2, (var % 3) as u8, false), id),
		"churn" => gen_case(s, cmp, &cfg(0, 1, false), id),
		_ => gen_trunk_case(s, cmp, 230 + (var % 3) as u32 * 40, 2, id),
	}
}
