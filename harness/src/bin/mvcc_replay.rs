//! C01 / C06 spec -> implementation: replays scenarios exported by TLC from
//! spec/mvcc/MvccMC.tla on a real `Tree`.
//!
//! usage: mvcc_replay <tlc-export-or-ndjson> [--levels N] [--versioning] [--vlog] [--jobs N]
//!
//! Scenario: {"ops":[{"op","a","b"}...], "expect":{latest:{k:v}, readers:{r:{open,cursor,snap,reads:{k:v}}},
//!            registered:[..], visible:n}}   (v = seq of the version that must be read, 0 = absent)
//! After the last op every open reader's point reads, its pinned cursor, a fresh forward and backward
//! range scan, and the latest reader's reads are compared with what the PROPERTY prescribes.
//! Conformance (drift only): registered horizons vs `verif_state().snapshots`.

use std::collections::{BTreeMap, HashMap};
use std::io::{BufRead, BufReader};
use std::sync::atomic::{AtomicU64, Ordering};
use std::sync::{Arc, Mutex};
use std::time::Duration;

use serde_json::{json, Value};
use surrealkv::{LSMIterator, Mode, Options, Transaction, Tree, TreeBuilder};
use verif_harness::keys::key_bytes;
use verif_harness::out::Summary;
use verif_harness::sched::GateSink;

#[derive(Clone)]
struct Cfg {
	levels: u8,
	versioning: bool,
	vlog: bool,
	block: usize,
	cache: Option<u64>,
	snappy: bool,
	nobloom: bool,
	memtable: usize,
}

static TOKEN: AtomicU64 = AtomicU64::new(1);

fn val_bytes(seq: u64, big: bool) -> Vec<u8> {
	let mut v = format!("v{seq}").into_bytes();
	if big {
		v.resize(300, b'.');
	}
	v
}

fn decode_val(b: &[u8]) -> u64 {
	let s: String = b.iter().take_while(|c| **c != b'.').map(|c| *c as char).collect();
	s.trim_start_matches('v').parse().unwrap_or(u64::MAX)
}

struct ReaderSt {
	pending: Option<(u64, std::thread::JoinHandle<Transaction>)>,
	txn: Option<&'static Transaction>,
	raw: *mut Transaction,
	cursor: Option<Box<dyn LSMIterator + 'static>>,
}

impl Default for ReaderSt {
	fn default() -> Self {
		ReaderSt {
			pending: None,
			txn: None,
			raw: std::ptr::null_mut(),
			cursor: None,
		}
	}
}

impl ReaderSt {
	fn end(&mut self) {
		self.cursor = None;
		self.txn = None;
		if !self.raw.is_null() {
			// SAFETY: raw came from Box::into_raw and every borrow derived from it is gone
			unsafe { drop(Box::from_raw(self.raw)) };
			self.raw = std::ptr::null_mut();
		}
	}
}

fn scan(it: &mut dyn LSMIterator, forward: bool) -> Result<BTreeMap<Vec<u8>, u64>, String> {
	let mut out = BTreeMap::new();
	let mut ok = if forward {
		it.seek_first()
	} else {
		it.seek_last()
	}
	.map_err(|e| e.to_string())?;
	let mut n = 0;
	while ok && it.valid() {
		let k = it.key().user_key().to_vec();
		let v = it.value().map_err(|e| e.to_string())?;
		if out.insert(k.clone(), decode_val(&v)).is_some() {
			return Err(format!("key {:?} returned twice", k));
		}
		ok = if forward {
			it.next()
		} else {
			it.prev()
		}
		.map_err(|e| e.to_string())?;
		n += 1;
		if n > 10_000 {
			return Err("cursor does not terminate".into());
		}
	}
	Ok(out)
}

fn expected_map(reads: &Value) -> BTreeMap<Vec<u8>, u64> {
	let mut m = BTreeMap::new();
	for (k, v) in reads.as_object().unwrap() {
		let s = v.as_u64().unwrap();
		if s != 0 {
			m.insert(key_bytes(k), s);
		}
	}
	m
}

fn run_scenario(sc: &Value, cfg: &Cfg, sink: &Arc<GateSink>) -> Result<(Vec<Value>, Vec<Value>), String> {
	let mut viol = Vec::new();
	let mut drift = Vec::new();
	let dir = verif_harness::scratch_dir("mvcc");
	let rt = verif_harness::rt();
	let _g = rt.enter();
	let mut opts = Options::new()
		.with_path(dir.path().to_path_buf())
		.with_level_count(cfg.levels)
		.with_max_memtable_size(cfg.memtable)
		.with_block_size(cfg.block)
		.with_index_partition_size(64)
		.with_l0_stall_threshold(64)
		.with_memtable_stall_threshold(64);
	opts.level0_max_files = 64; // nothing happens behind the scenario's back
	if let Some(c) = cfg.cache {
		opts = opts.with_block_cache_capacity(c);
	}
	if cfg.snappy {
		opts = opts.with_compression_per_level(vec![surrealkv::CompressionType::SnappyCompression; cfg.levels as usize]);
	} else {
		opts = opts.without_compression();
	}
	if cfg.nobloom {
		opts = opts.with_filter_policy(None);
	}
	// versioning requires the value log with threshold 0 (Options::validate)
	opts = opts.with_enable_vlog(cfg.vlog || cfg.versioning);
	if cfg.versioning {
		opts = opts.with_versioning(true, 0).with_vlog_value_threshold(0);
	} else if cfg.vlog {
		opts = opts.with_vlog_value_threshold(64);
	}
	if let Err(e) = opts.validate() {
		eprintln!("driver configuration rejected by Options::validate: {e}");
		std::process::exit(2);
	}
	let mut tree: Tree = TreeBuilder::with_options(opts.clone())
		.build()
		.map_err(|e| format!("open failed: {e}"))?;
	let mut readers: HashMap<String, ReaderSt> = HashMap::new();
	let mut commits = 0u64;
	let ops = sc["ops"].as_array().unwrap();
	for (i, op) in ops.iter().enumerate() {
		let name = op["op"].as_str().unwrap();
		let a = op["a"].as_str().unwrap();
		let b = op["b"].as_str().unwrap();
		let fail = |e: String| format!("step {i} {name}: {e}");
		match name {
			"Commit" => {
				commits += 1;
				let mut t = tree.begin().map_err(|e| fail(e.to_string()))?;
				let k = key_bytes(a);
				let v = val_bytes(commits, cfg.vlog);
				match b {
					"Set" => t.set(k, v),
					"Del" => t.delete(k),
					"SoftDel" => t.soft_delete(k),
					"Replace" => t.replace(k, v),
					_ => return Err(fail("kind".into())),
				}
				.map_err(|e| fail(e.to_string()))?;
				rt.block_on(t.commit()).map_err(|e| fail(e.to_string()))?;
			}
			"Reopen" => {
				rt.block_on(tree.close()).map_err(|e| fail(format!("close: {e}")))?;
				drop(tree);
				tree = TreeBuilder::with_options(opts.clone())
					.build()
					.map_err(|e| fail(format!("reopen failed: {e}")))?;
			}
			"Rotate" => tree.verif_rotate().map_err(|e| fail(e.to_string()))?,
			"Flush" => tree.verif_flush_one().map_err(|e| fail(e.to_string()))?,
			"Compact" => {
				tree.verif_compact(a.parse().unwrap()).map_err(|e| fail(e.to_string()))?
			}
			"BeginLoad" => {
				let token = TOKEN.fetch_add(1, Ordering::SeqCst);
				let t2 = tree.clone();
				let h = std::thread::spawn(move || {
					GateSink::arm("txn.begin.loaded", token);
					let t = t2.begin_with_mode(Mode::ReadOnly).expect("begin");
					GateSink::disarm();
					drop(t2); // no runtime on this thread: Tree::drop does nothing
					t
				});
				if !sink.wait_parked(token, Duration::from_secs(20)) {
					return Err(fail("reader did not reach the begin gate".into()));
				}
				readers.entry(a.to_string()).or_default().pending = Some((token, h));
			}
			"Begin" => {
				let t = tree.begin_with_mode(Mode::ReadOnly).map_err(|e| fail(e.to_string()))?;
				let r = readers.entry(a.to_string()).or_default();
				let raw = Box::into_raw(Box::new(t));
				r.raw = raw;
				// SAFETY: the box lives until ReaderSt::end
				r.txn = Some(unsafe { &*raw });
			}
			"BeginRegister" => {
				let r = readers.get_mut(a).ok_or_else(|| fail("unknown reader".into()))?;
				let (token, h) = r.pending.take().ok_or_else(|| fail("not loaded".into()))?;
				sink.release(token);
				let t = h.join().map_err(|_| fail("begin panicked".into()))?;
				let raw = Box::into_raw(Box::new(t));
				r.raw = raw;
				// SAFETY: the box lives until ReaderSt::end
				r.txn = Some(unsafe { &*raw });
			}
			"OpenCursor" => {
				let r = readers.get_mut(a).ok_or_else(|| fail("unknown reader".into()))?;
				let t = r.txn.ok_or_else(|| fail("not open".into()))?;
				let mut it: Box<dyn LSMIterator + 'static> =
					Box::new(t.range(b"\x00".to_vec(), b"\xff\xff".to_vec()).map_err(|e| fail(e.to_string()))?);
				it.seek_first().map_err(|e| fail(e.to_string()))?;
				r.cursor = Some(it);
			}
			"CloseCursor" => {
				readers.get_mut(a).ok_or_else(|| fail("unknown reader".into()))?.cursor = None;
			}
			"End" => {
				readers.get_mut(a).ok_or_else(|| fail("unknown reader".into()))?.end();
			}
			_ => return Err(fail("unknown op".into())),
		}
	}

	// ---- observations --------------------------------------------------------------------
	let exp = &sc["expect"];
	// conformance first: with the pinned code a range scan itself unregisters the horizon
	let st = tree.verif_state();
	let check_reads = |who: &str, t: &Transaction, reads: &Value, viol: &mut Vec<Value>| {
		for (k, v) in reads.as_object().unwrap() {
			let want = v.as_u64().unwrap();
			let got = match t.get(key_bytes(k)) {
				Ok(None) => 0,
				Ok(Some(b)) => decode_val(&b),
				Err(e) => {
					viol.push(json!({"kind":"get_error","who":who,"key":k,"error":e.to_string()}));
					continue;
				}
			};
			if got != want {
				viol.push(json!({"kind":"wrong_read","who":who,"key":k,"want":want,"got":got}));
			}
		}
		let want = expected_map(reads);
		for fwd in [true, false] {
			match t.range(b"\x00".to_vec(), b"\xff\xff".to_vec()) {
				Ok(mut it) => match scan(&mut it, fwd) {
					Ok(got) => {
						if got != want {
							viol.push(json!({"kind":"wrong_scan","who":who,"forward":fwd,
								"want":format!("{:?}",want),"got":format!("{:?}",got)}));
						}
					}
					Err(e) => viol.push(json!({"kind":"scan_error","who":who,"error":e})),
				},
				Err(e) => viol.push(json!({"kind":"range_error","who":who,"error":e.to_string()})),
			}
		}
	};
	let no_readers = serde_json::Map::new();
	for (rname, r) in exp["readers"].as_object().unwrap_or(&no_readers) {
		if !r["open"].as_bool().unwrap() {
			continue;
		}
		let st = readers.get_mut(rname).ok_or("reader missing")?;
		let t = st.txn.ok_or("reader not open in driver")?;
		// The reader began somewhere inside its begin() call: accept the first candidate
		// horizon (newest first) that explains ALL its reads; report against the newest.
		let mut cands: Vec<&Value> = r["cands"].as_array().map(|a| a.iter().collect()).unwrap_or_default();
		cands.reverse();
		if cands.is_empty() {
			cands.push(&r["reads"]);
		}
		let mut chosen = cands[0];
		let mut first_viol: Option<Vec<Value>> = None;
		for c in &cands {
			let mut v = Vec::new();
			check_reads(rname, t, c, &mut v);
			if v.is_empty() {
				chosen = c;
				first_viol = None;
				break;
			}
			if first_viol.is_none() {
				first_viol = Some(v);
			}
		}
		if let Some(v) = first_viol {
			viol.extend(v);
		}
		if r["cursor"].as_bool().unwrap() {
			if let Some(cur) = st.cursor.as_mut() {
				let want = expected_map(chosen);
				match scan(cur.as_mut(), true) {
					Ok(got) => {
						if got != want {
							viol.push(json!({"kind":"wrong_pinned_cursor","who":rname,
								"want":format!("{:?}",want),"got":format!("{:?}",got)}));
						}
					}
					Err(e) => viol.push(json!({"kind":"cursor_error","who":rname,"error":e})),
				}
			}
		}
	}
	{
		let t = tree.begin_with_mode(Mode::ReadOnly).map_err(|e| e.to_string())?;
		check_reads("latest", &t, &exp["latest"], &mut viol);
	}
	let mut want_reg: Vec<u64> =
		exp["registered"].as_array().unwrap().iter().map(|x| x.as_u64().unwrap()).collect();
	want_reg.sort();
	let mut got_reg = st.snapshots.clone();
	got_reg.sort();
	got_reg.dedup();
	if want_reg != got_reg {
		drift.push(json!({"kind":"registered_horizons","spec":want_reg,"impl":got_reg}));
	}
	if st.visible_seq != exp["visible"].as_u64().unwrap() {
		drift.push(json!({"kind":"visible","spec":exp["visible"],"impl":st.visible_seq}));
	}
	// release parked begins, end readers, close
	for (_, r) in readers.iter_mut() {
		if let Some((token, h)) = r.pending.take() {
			sink.release(token);
			let _ = h.join();
		}
		r.end();
	}
	let _ = rt.block_on(tree.close());
	Ok((viol, drift))
}

fn main() {
	let args: Vec<String> = std::env::args().collect();
	if args.len() < 2 {
		eprintln!("usage: mvcc_replay <file> [--levels N] [--versioning] [--vlog] [--jobs N]");
		std::process::exit(2);
	}
	let argval = |name: &str| args.iter().position(|a| a == name).and_then(|i| args.get(i + 1)).cloned();
	let cfg = Cfg {
		levels: argval("--levels").map(|s| s.parse().unwrap()).unwrap_or(2),
		versioning: args.iter().any(|a| a == "--versioning"),
		vlog: args.iter().any(|a| a == "--vlog"),
		block: argval("--block").map(|s| s.parse().unwrap()).unwrap_or(128),
		cache: argval("--cache").map(|s| s.parse().unwrap()),
		snappy: args.iter().any(|a| a == "--snappy"),
		nobloom: args.iter().any(|a| a == "--nobloom"),
		memtable: argval("--memtable").map(|s| s.parse().unwrap()).unwrap_or(1 << 20),
	};
	let jobs: usize = argval("--jobs").map(|s| s.parse().unwrap()).unwrap_or(8);
	verif_harness::quiet_panics();
	let sink = GateSink::install();
	let f = std::fs::File::open(&args[1]).unwrap_or_else(|e| {
		eprintln!("cannot open {}: {e}", args[1]);
		std::process::exit(2)
	});
	let mut scenarios: Vec<Value> = Vec::new();
	for line in BufReader::new(f).lines() {
		let line = line.unwrap();
		let text: String = if line.starts_with("\"REPLAY ") {
			let s: String = serde_json::from_str(&line).unwrap();
			s["REPLAY ".len()..].to_string()
		} else if line.starts_with('{') {
			line
		} else {
			continue;
		};
		scenarios.push(serde_json::from_str(&text).unwrap());
	}
	let sum = Arc::new(Mutex::new(Summary::new("mvcc_replay")));
	let next = Arc::new(AtomicU64::new(0));
	let scenarios = Arc::new(scenarios);
	let mut hs = Vec::new();
	for _ in 0..jobs {
		let (sum, next, scenarios, cfg, sink) =
			(sum.clone(), next.clone(), scenarios.clone(), cfg.clone(), sink.clone());
		hs.push(std::thread::spawn(move || loop {
			let i = next.fetch_add(1, Ordering::SeqCst) as usize;
			if i >= scenarios.len() {
				break;
			}
			let sc = &scenarios[i];
			let res = verif_harness::catch(|| run_scenario(sc, &cfg, &sink));
			let mut s = sum.lock().unwrap();
			s.cases += 1;
			s.steps += sc["ops"].as_array().map(|a| a.len()).unwrap_or(0) as u64;
			if i % 2000 == 0 {
				s.sample(sc.clone());
			}
			match res {
				Ok(Ok((viol, drift))) => {
					for v in viol {
						let mut v = v;
						v["scenario"] = sc.clone();
						s.violation(v);
					}
					for d in drift {
						s.drift(d);
					}
				}
				Ok(Err(e)) => s.violation(json!({"kind":"engine_error","error":e,"scenario":sc})),
				Err(p) => s.violation(json!({"kind":"panic","message":p,"scenario":sc})),
			}
		}));
	}
	for h in hs {
		let _ = h.join();
	}
	let mut s = sum.lock().unwrap();
	s.extra.insert("levels".into(), json!(cfg.levels));
	s.extra.insert("versioning".into(), json!(cfg.versioning));
	s.extra.insert("vlog".into(), json!(cfg.vlog));
	s.print();
}
