//! C04: the conflict window while the oracle's map is pruned (real GC interval = 1024 publishes).
//!
//! In spec/commit the pruning step (GcInterval = 2) is explored exhaustively; here the same situations are
//! scaled to the real interval: a transaction T0 (read-write or write-only) begins after `b` commits, stays
//! open while up to 2100 other commits pass (two GC intervals), one of which - commit number `j` - writes
//! the contended key; then T0 writes the key and commits.
//!   j >  b : a transaction that committed after T0 began wrote the key  -> T0 must NOT commit (C04, first sentence)
//!   j <= b : nobody wrote the key after T0 began                        -> T0 must commit (Retry is not
//!            justified: T0 is live, so the window cannot have been pruned past its start)
//! A second long-running reader (begun before everything) keeps the oldest live start low in half of the cases.
use serde_json::json;
use surrealkv::{Error, Mode, Options, TreeBuilder};
use verif_harness::out::Summary;

fn main() {
	verif_harness::quiet_panics();
	let mut sum = Summary::new("oracle_gc");
	let rt = verif_harness::rt();
	let _g = rt.enter();
	let bs = [0u32, 1, 500, 1022, 1023, 1024, 1025, 1500, 2047, 2048];
	for mode in [Mode::ReadWrite, Mode::WriteOnly] {
		for old_reader in [false, true] {
			for &b in &bs {
				let mut js: Vec<u32> = vec![b.saturating_sub(1), b, b + 1, b + 2, 1023, 1024, 1025, 2047, 2048, 2049];
				js.retain(|j| *j >= 1 && *j <= 2100);
				js.sort();
				js.dedup();
				for j in js {
					sum.cases += 1;
					let dir = verif_harness::scratch_dir("gc");
					let mut opts = Options::new().with_path(dir.path().to_path_buf()).with_max_memtable_size(8 << 20);
					opts.level0_max_files = 64;
					let tree = TreeBuilder::with_options(opts.with_l0_stall_threshold(64)).build().expect("open");
					let r = verif_harness::catch(|| {
						let keep = if old_reader { Some(tree.begin_with_mode(Mode::ReadOnly).unwrap()) } else { None };
						let mut t0 = None;
						let last = 2100u32.max(j);
						for i in 1..=last {
							if i == b + 1 && t0.is_none() {
								t0 = Some(tree.begin_with_mode(mode).unwrap());
							}
							let mut t = tree.begin_with_mode(Mode::WriteOnly).unwrap();
							t.set(format!("pad{i}").into_bytes(), b"x".to_vec()).unwrap();
							if i == j {
								t.set(b"contended".to_vec(), format!("by{i}").into_bytes()).unwrap();
							}
							rt.block_on(t.commit()).unwrap();
						}
						let mut t0 = match t0 {
							Some(t) => t,
							None => tree.begin_with_mode(mode).unwrap(),
						};
						t0.set(b"contended".to_vec(), b"byT0".to_vec()).unwrap();
						let res = rt.block_on(t0.commit());
						drop(keep);
						let fin = tree.begin_with_mode(Mode::ReadOnly).unwrap().get(b"contended").unwrap();
						(res, fin)
					});
					let case = json!({"mode": format!("{mode:?}"), "old_reader": old_reader, "begin_after": b, "key_written_by_commit": j});
					match r {
						Err(p) => sum.violation(json!({"kind":"panic","message":p,"case":case})),
						Ok((res, fin)) => {
							let overlapped = j > b;
							match (&res, overlapped) {
								(Ok(()), true) => sum.violation(json!({"kind":"both_overlapping_writers_committed","case":case,
									"final": fin.map(|v| String::from_utf8_lossy(&v).to_string())})),
								(Err(Error::TransactionWriteConflict), true) | (Err(Error::TransactionRetry), true) => {}
								(Ok(()), false) => {
									if fin.as_deref() != Some(b"byT0") {
										sum.violation(json!({"kind":"final_state_wrong","case":case}));
									}
								}
								(Err(Error::TransactionWriteConflict), false) => sum.violation(json!({"kind":"spurious_conflict","case":case})),
								(Err(Error::TransactionRetry), false) => sum.violation(json!({"kind":"spurious_retry","case":case})),
								(Err(e), _) => sum.violation(json!({"kind":"commit_error","error":e.to_string(),"case":case})),
							}
							sum.steps += 2100;
							if sum.cases % 40 == 1 {
								sum.sample(json!({"case":case,"result":format!("{:?}",res.is_ok())}));
							}
						}
					}
					let _ = rt.block_on(tree.close());
				}
			}
		}
	}
	sum.print();
}
