//! C02 / C03 / C07 / C11: seeded workload on a real Tree, meant to run under shim/fsrec.so so that every
//! file-system operation and every logical event (commit begun / acknowledged, flush_wal returned, ...)
//! lands in one ordered log from which crash images are rebuilt.
//!
//! usage: storage_run --dir DIR --meta META.json --seed N [--txns N] [--memtable BYTES] [--levels N] [--vlog]
//!                    [--versioning] [--committers N] [--gen G] [--manual]
//! --manual: rotation, flush of the oldest immutable memtable and compaction are driven by the seeded script (hooks)
//! instead of the background tasks' timing, so that several immutable memtables are pending at crash instants.
//! With --gen > 0 the directory already holds a recovered store (generation G of crash -> recover -> commit).
//!
//! META.json (written at the end): options to reopen with, and per transaction the logical effect
//! (key -> value id | null for delete), in commit order for a single committer; value id = "<txn>:<key>:<len>".

use std::collections::BTreeMap;
use std::ffi::CString;

use rand::rngs::StdRng;
use rand::{Rng, SeedableRng};
use serde_json::{json, Value};
use surrealkv::{Durability, Options, TreeBuilder};

type MarkFn = unsafe extern "C" fn(*const libc::c_char) -> u64;

fn mark(text: &str) -> u64 {
	static F: std::sync::OnceLock<Option<MarkFn>> = std::sync::OnceLock::new();
	let f = F.get_or_init(|| unsafe {
		let sym = libc::dlsym(libc::RTLD_DEFAULT, c"fsrec_mark".as_ptr());
		if sym.is_null() {
			None
		} else {
			Some(std::mem::transmute::<*mut libc::c_void, MarkFn>(sym))
		}
	});
	match f {
		Some(f) => {
			let c = CString::new(text).unwrap();
			unsafe { f(c.as_ptr()) }
		}
		None => 0,
	}
}

/// "<txn>:<key>:<len>|" followed by a pseudo-random body determined by (txn, len); total length = max(len, 40)
pub fn value_bytes(txn: u64, key: &str, len: usize) -> Vec<u8> {
	let len = len.max(40);
	let mut v = format!("{txn}:{key}:{len}|").into_bytes();
	let mut x = txn.wrapping_mul(0x9E3779B97F4A7C15) ^ (len as u64);
	while v.len() < len {
		x ^= x << 13;
		x ^= x >> 7;
		x ^= x << 17;
		v.push((x & 0xff) as u8);
	}
	v
}

fn main() {
	let args: Vec<String> = std::env::args().collect();
	let argval = |name: &str| args.iter().position(|a| a == name).and_then(|i| args.get(i + 1)).cloned();
	let flag = |name: &str| args.iter().any(|a| a == name);
	let dir = argval("--dir").expect("--dir");
	let meta = argval("--meta").expect("--meta");
	let seed: u64 = argval("--seed").map(|s| s.parse().unwrap()).unwrap_or(1);
	let txns: u64 = argval("--txns").map(|s| s.parse().unwrap()).unwrap_or(30);
	let memtable: usize = argval("--memtable").map(|s| s.parse().unwrap()).unwrap_or(32 * 1024);
	let levels: u8 = argval("--levels").map(|s| s.parse().unwrap()).unwrap_or(3);
	let gen: u64 = argval("--gen").map(|s| s.parse().unwrap()).unwrap_or(0);
	let first_txn: u64 = argval("--first-txn").map(|s| s.parse().unwrap()).unwrap_or(1);
	let vlog = flag("--vlog");
	let versioning = flag("--versioning");
	let manual = flag("--manual");
	let l0: usize = argval("--l0").map(|s| s.parse().unwrap()).unwrap_or(2);

	let rt = tokio::runtime::Builder::new_multi_thread().worker_threads(3).enable_all().build().unwrap();
	let _g = rt.enter();
	let mut opts = Options::new()
		.with_path(dir.clone().into())
		.with_max_memtable_size(if manual { 8 << 20 } else { memtable })
		.with_level_count(levels)
		.with_block_size(512)
		.with_enable_vlog(vlog || versioning);
	opts.level0_max_files = l0;
	// manual: flushes go through the hooks, which do not wake the level task - the stall limits must never be reached
	let mut opts = opts
		.with_l0_stall_threshold(if manual { 4096 } else { l0.max(2) * 4 })
		.with_memtable_stall_threshold(if manual { 4096 } else { 4 });
	if versioning {
		opts = opts.with_versioning(true, 0).with_vlog_value_threshold(0);
		if flag("--index") {
			opts = opts.with_versioned_index(true);
		}
	} else if vlog {
		opts = opts.with_vlog_value_threshold(256).with_vlog_max_file_size(memtable as u64);
	}
	let opts_json = json!({"memtable": memtable, "levels": levels, "vlog": vlog, "versioning": versioning, "l0": l0, "index": flag("--index")});
	mark(&json!({"ev":"open_begin","gen":gen}).to_string());
	let tree = match TreeBuilder::with_options(opts).build() {
		Ok(t) => t,
		Err(e) => {
			mark(&json!({"ev":"open_failed","error":e.to_string()}).to_string());
			std::fs::write(&meta, json!({"opts": opts_json, "open_failed": e.to_string(), "txns": []}).to_string()).unwrap();
			println!("SUMMARY {}", json!({"driver":"storage_run","open_failed":e.to_string()}));
			return;
		}
	};
	mark(&json!({"ev":"open_done","gen":gen}).to_string());

	let mut rng = StdRng::seed_from_u64(seed ^ (gen << 32));
	let keys: Vec<String> = (0..10).map(|i| format!("key{i:02}")).collect();
	let mut log: Vec<Value> = Vec::new();
	let big = (memtable as f64 * 0.3) as usize;
	for i in 0..txns {
		let id = first_txn + i;
		let n = match rng.random_range(0..10) {
			0..=5 => 1,
			6..=8 => 2,
			_ => 3,
		};
		let mut eff: BTreeMap<String, Value> = BTreeMap::new();
		let mut t = tree.begin().expect("begin");
		let immediate = rng.random_range(0..3) == 0;
		if immediate {
			t.set_durability(Durability::Immediate);
		}
		for _ in 0..n {
			let k = &keys[rng.random_range(0..keys.len())];
			match rng.random_range(0..10) {
				0 | 1 => {
					t.delete(k.as_bytes()).unwrap();
					eff.insert(k.clone(), Value::Null);
				}
				_ => {
					let len = match rng.random_range(0..10) {
						0..=3 => rng.random_range(1..40),
						4..=6 => rng.random_range(200..3000),
						_ => big + rng.random_range(0..200),
					};
					let v = value_bytes(id, k, len);
					eff.insert(k.clone(), json!(format!("{id}:{k}:{}", v.len())));
					t.set(k.as_bytes(), v).unwrap();
				}
			}
		}
		mark(&json!({"ev":"commit_begin","txn":id}).to_string());
		let r = rt.block_on(t.commit());
		match &r {
			Ok(()) => {
				mark(&json!({"ev":"commit_ack","txn":id,"sync":immediate}).to_string());
			}
			Err(e) => {
				mark(&json!({"ev":"commit_err","txn":id,"error":e.to_string()}).to_string());
				// C15: nothing of a failed transaction is visible (value ids carry the transaction number)
				if let Ok(r) = tree.begin() {
					for (k, v) in &eff {
						if let (Some(want), Ok(Some(got))) = (v.as_str(), r.get(k.as_bytes())) {
							let head = String::from_utf8_lossy(&got[..got.iter().position(|b| *b == b'|').unwrap_or(got.len())]).to_string();
							if head == want {
								mark(&json!({"ev":"violation","kind":"failed_commit_visible","txn":id,"key":k}).to_string());
							}
						}
					}
				}
			}
		}
		log.push(json!({"txn": id, "ok": r.is_ok(), "sync": immediate, "effect": eff}));
		// now and then: explicit WAL flush, and give the background tasks air
		match rng.random_range(0..12) {
			0 => {
				if tree.flush_wal(true).is_ok() {
					mark(&json!({"ev":"flush_wal","sync":true}).to_string());
				}
			}
			1 => {
				let _ = tree.flush_wal(false);
			}
			2 | 3 => rt.block_on(async { tokio::time::sleep(std::time::Duration::from_millis(15)).await }),
			_ => {}
		}
		if manual {
			match rng.random_range(0..20) {
				0..=5 => {
					let _ = tree.verif_rotate();
				}
				6..=9 => {
					let _ = tree.verif_flush_one();
					// the WAL clean-up of a flush is a spawned task: let it run now and then only
					if rng.random_range(0..2) == 0 {
						rt.block_on(async { tokio::time::sleep(std::time::Duration::from_millis(5)).await });
					}
				}
				10 => {
					let _ = tree.verif_compact_auto();
				}
				_ => {}
			}
		}
	}
	// let background work settle a little, then either close cleanly or just stop (both are crash-swept)
	rt.block_on(async { tokio::time::sleep(std::time::Duration::from_millis(60)).await });
	if !flag("--no-close") {
		mark(&json!({"ev":"close_begin"}).to_string());
		let r = rt.block_on(tree.close());
		mark(&json!({"ev":"close_done","ok":r.is_ok()}).to_string());
	}
	std::fs::write(&meta, json!({"opts": opts_json, "txns": log, "gen": gen}).to_string()).unwrap();
	println!("SUMMARY {}", json!({"driver":"storage_run","cases":1,"steps":txns,"violations":[],"violation_count":0,"drift":[],"drift_count":0,"samples":[],"extra":{}}));
	std::mem::forget(tree);
}
