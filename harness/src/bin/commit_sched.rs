//! C04 / C05 / C15 / C17 spec -> implementation: replays interleavings exported by TLC from
//! spec/commit/CommitMC.tla on the commit pipeline of a real `Tree`, holding every committer
//! at the yield points in `CommitPipeline::commit` / `publish` (gate scheduler).
//!
//! usage: commit_sched <tlc-export-or-ndjson> [--jobs N] [--no-reopen]
//!
//! Schedule: {"wr":{t:[keys]}, "steps":[{"a":action,"t":txn,"x":n}], "expect":{res,start,seq,visible,pc,kept}}
//!
//! Judged on the REAL execution (these decide):
//!   after every step a probe reader scans all keys: what it sees must be a whole-batch prefix of the
//!     commit order (C05 AtomicVis / PrefixVis), never goes backwards (Monotone), contains every commit
//!     that already returned Ok (RealTime), and nothing of a commit that returned an error (C15);
//!   at the end (after draining every committer): first-committer-wins over the real start/seq/result
//!     values (C04), losers left nothing, final reads = newest committed writer per key, the same after
//!     close + reopen (C15: a failed commit does not come back), every commit() returned (C17).
//! Conformance (drift): the yield point reached after each step and the results predicted by the spec.

use std::collections::{BTreeMap, HashMap};
use std::io::{BufRead, BufReader};
use std::sync::atomic::{AtomicU64, Ordering};
use std::sync::{Arc, Mutex};
use std::time::Duration;

use serde_json::{json, Value};
use surrealkv::{Mode, Options, Tree, TreeBuilder};
use verif_harness::keys::key_bytes;
use verif_harness::out::Summary;
use verif_harness::sched::{GateSink, Status};

static TOKEN: AtomicU64 = AtomicU64::new(1);
const STEP_TIMEOUT: Duration = Duration::from_secs(20);

#[derive(Default, Debug, Clone)]
struct Obs {
	start: Option<u64>,
	seq: Option<u64>,
	count: u64,
	result: Option<String>, // "Ok" | "Conflict" | "Retry" | "Err:<..>"
	log_failed: bool,
	apply_failed: bool,
	/// what the transaction read for each of its keys right after begin ("" = absent): its snapshot
	seen: BTreeMap<String, String>,
}

struct Actor {
	dup: u64,
	token: u64,
	handle: Option<std::thread::JoinHandle<()>>,
	obs: Arc<Mutex<Obs>>,
	keys: Vec<String>,
	site: &'static str,
	done: bool,
}

fn val_of(t: &str) -> Vec<u8> {
	format!("val-{t}").into_bytes()
}

fn probe(tree: &Tree, keys: &[String]) -> Result<BTreeMap<String, String>, String> {
	let t = tree.begin_with_mode(Mode::ReadOnly).map_err(|e| e.to_string())?;
	let mut m = BTreeMap::new();
	for k in keys {
		match t.get(key_bytes(k)).map_err(|e| e.to_string())? {
			Some(v) => {
				m.insert(k.clone(), String::from_utf8_lossy(&v).trim_start_matches("val-").to_string());
			}
			None => {}
		}
	}
	Ok(m)
}

/// What a reader at horizon h must see, given the batches (txn, seq, count, keys, failed).
fn view_at(h: u64, batches: &[(String, u64, u64, Vec<String>, bool)]) -> BTreeMap<String, String> {
	let mut m: BTreeMap<String, (u64, String)> = BTreeMap::new();
	for (t, seq, cnt, keys, failed) in batches {
		if *failed || seq + cnt - 1 > h {
			continue;
		}
		for k in keys {
			let e = m.entry(k.clone()).or_insert((0, String::new()));
			if *seq >= e.0 {
				*e = (*seq, t.clone());
			}
		}
	}
	m.into_iter().map(|(k, v)| (k, v.1)).collect()
}

fn run_schedule(sc: &Value, sink: &Arc<GateSink>, reopen: bool) -> Result<(Vec<Value>, Vec<Value>), String> {
	let mut viol: Vec<Value> = Vec::new();
	let mut drift: Vec<Value> = Vec::new();
	let dir = verif_harness::scratch_dir("commit");
	let rt = verif_harness::rt();
	let _g = rt.enter();
	let mut opts = Options::new()
		.with_path(dir.path().to_path_buf())
		.with_max_memtable_size(1 << 20)
		.with_l0_stall_threshold(64)
		.with_memtable_stall_threshold(64);
	opts.level0_max_files = 64;
	let tree: Tree = TreeBuilder::with_options(opts.clone()).build().map_err(|e| format!("open: {e}"))?;
	let wr = sc["wr"].as_object().ok_or("wr")?;
	let all_keys: Vec<String> = {
		let mut s: Vec<String> =
			wr.values().flat_map(|v| v.as_array().unwrap().iter().map(|k| k.as_str().unwrap().to_string())).collect();
		s.sort();
		s.dedup();
		s
	};
	let mut actors: HashMap<String, Actor> = HashMap::new();
	let mut last_h: u64 = 0;
	let mut returned_ok: Vec<String> = Vec::new();

	// advance an actor until it parks at one of `until` (auto-releasing other sites) or finishes
	let advance = |a: &mut Actor, until: &[&str], sink: &Arc<GateSink>, may_block: bool| -> Result<(), String> {
		loop {
			sink.release(a.token);
			match sink.status(a.token, if may_block { Duration::from_millis(1500) } else { STEP_TIMEOUT }) {
				Status::Parked(site, fields) => {
					let mut o = a.obs.lock().unwrap();
					for (n, v) in &fields {
						match (site, *n) {
							("txn.begin.loaded", "start") => o.start = Some(*v),
							("commit.logged", "seq") | ("commit.logfail", "seq") => o.seq = Some(*v),
							("commit.logged", "count") => o.count = *v,
							("commit.applied", "ok") => o.apply_failed = *v == 0,
							_ => {}
						}
					}
					if site == "commit.logfail" {
						o.log_failed = true;
					}
					drop(o);
					a.site = site;
					if until.contains(&site) {
						return Ok(());
					}
				}
				Status::Done => {
					a.done = true;
					a.site = "actor.done";
					if let Some(h) = a.handle.take() {
						let _ = h.join();
					}
					return Ok(());
				}
				Status::Timeout if may_block => return Err("blocked".to_string()),
				Status::Timeout => return Err(format!("no progress (actor stuck after {})", a.site)),
			}
		}
	};

	let steps = sc["steps"].as_array().ok_or("steps")?;
	for (i, st) in steps.iter().enumerate() {
		let act = st["a"].as_str().unwrap();
		let t = st["t"].as_str().unwrap().to_string();
		if act == "Begin" {
			let token = TOKEN.fetch_add(1, Ordering::SeqCst);
			let obs = Arc::new(Mutex::new(Obs::default()));
			let keys: Vec<String> = wr[&t].as_array().unwrap().iter().map(|k| k.as_str().unwrap().to_string()).collect();
			let dup2 = sc["dup"].get(&t).and_then(|d| d.as_u64()).unwrap_or(0);
			let (tree2, sink2, obs2, keys2, tname) = (tree.clone(), sink.clone(), obs.clone(), keys.clone(), t.clone());
			let obs3 = obs.clone();
			let handle = std::thread::spawn(move || {
				GateSink::enroll(token);
				let rt = verif_harness::rt();
				let res = verif_harness::catch(|| {
					let mut txn = tree2.begin().expect("begin");
					{
						let mut o = obs3.lock().unwrap();
						for k in &keys2 {
							let v = txn.get(key_bytes(k)).expect("get");
							o.seen.insert(k.clone(), v.map(|b| String::from_utf8_lossy(&b).trim_start_matches("val-").to_string()).unwrap_or_default());
						}
					}
					sink2.gate_here("actor.begun", &[]);
					// a batch with `dup` repeated entries: the LAST key (in reverse order) is written under an
					// extra savepoint first, so the batch is [kN, kN, ..., k1] - a repeated key followed by others
					let mut order: Vec<&String> = keys2.iter().collect();
					order.reverse();
					for _ in 0..dup2 {
						txn.set(key_bytes(order[0]), val_of(&tname)).expect("set");
						txn.set_savepoint().expect("savepoint");
					}
					for k in order {
						txn.set(key_bytes(k), val_of(&tname)).expect("set");
					}
					let r = rt.block_on(txn.commit());
					drop(txn);
					r
				});
				let s = match res {
					Ok(Ok(())) => "Ok".to_string(),
					Ok(Err(surrealkv::Error::TransactionWriteConflict)) => "Conflict".to_string(),
					Ok(Err(surrealkv::Error::TransactionRetry)) => "Retry".to_string(),
					Ok(Err(e)) => format!("Err:{e}"),
					Err(p) => format!("Panic:{p}"),
				};
				obs2.lock().unwrap().result = Some(s);
				drop(tree2);
				sink2.finish(token);
			});
			let mut a = Actor { dup: dup2, token, handle: Some(handle), obs, keys, site: "spawned", done: false };
			// wait for the first park (txn.begin.loaded), then run to "actor.begun"
			match sink.status(token, STEP_TIMEOUT) {
				Status::Parked(site, fields) => {
					if site == "txn.begin.loaded" {
						if let Some((_, v)) = fields.iter().find(|(n, _)| *n == "start") {
							a.obs.lock().unwrap().start = Some(*v);
						}
					}
					a.site = site;
				}
				_ => return Err(format!("step {i}: actor did not start")),
			}
			if a.site != "actor.begun" {
				advance(&mut a, &["actor.begun"], sink, false).map_err(|e| format!("step {i} Begin: {e}"))?;
			}
			actors.insert(t.clone(), a);
		} else {
			let a = actors.get_mut(&t).ok_or(format!("step {i}: unknown txn {t}"))?;
			if a.done {
				drift.push(json!({"kind":"actor_already_done","step":i,"action":act,"txn":t}));
				break;
			}
			let until: &[&str] = match act {
				"Enter" => &["commit.permit"],
				"Critical" => &["commit.logged"],
				"CriticalLogFail" => &["commit.logfail"],
				"ApplyOk" | "ApplyFail" => &["commit.applied"],
				"Mark" => &["commit.marked"],
				"PStep" => &["publish.dequeued", "commit.published"],
				"Await" => &[],
				other => return Err(format!("unknown action {other}")),
			};
			// failpoints are thread-local to the actor: arm through a tiny trampoline gate
			if act == "CriticalLogFail" || act == "ApplyFail" {
				a.obs.lock().unwrap().count = a.keys.len() as u64 + a.dup;
				sink.arm_failpoint_for(a.token, if act == "ApplyFail" { "commit.apply" } else { "commit.log_append" });
			}
			let before = a.site;
			// taking a permit and awaiting the completion may legitimately block until others move on:
			// then the rest of the schedule is not feasible on this code; drain and judge what happened
			let may_block = matches!(act, "Enter" | "Await");
			match advance(a, until, sink, may_block) {
				Ok(()) => {}
				Err(e) if e == "blocked" => {
					drift.push(json!({"kind":"step_blocked","step":i,"action":act,"txn":t}));
					break;
				}
				Err(e) => return Err(format!("step {i} {act}({t}): {e}")),
			}
			let expected_done = act == "Await";
			if a.done != expected_done && !(a.done && matches!(act, "Critical" | "PStep" | "Enter")) {
				drift.push(json!({"kind":"unexpected_site","step":i,"action":act,"txn":t,"from":before,"reached":a.site}));
			}
			if a.done {
				let o = a.obs.lock().unwrap().clone();
				if o.result.as_deref() == Some("Ok") {
					returned_ok.push(t.clone());
				}
			}
		}

		// ---- probe reader after every step (C05 / C15) ---------------------------------------
		let batches: Vec<(String, u64, u64, Vec<String>, bool)> = actors
			.iter()
			.filter_map(|(n, a)| {
				let o = a.obs.lock().unwrap();
				o.seq.map(|s| {
					let failed = o.log_failed
						|| o.apply_failed || matches!(o.result.as_deref(), Some(r) if r != "Ok");
					(n.clone(), s, a.keys.len() as u64 + a.dup, a.keys.clone(), failed)
				})
			})
			.collect();
		let got = probe(&tree, &all_keys)?;
		let mut hs: Vec<u64> = vec![0];
		hs.extend(batches.iter().map(|b| b.1 + b.2 - 1));
		hs.sort();
		hs.dedup();
		let cand: Vec<u64> = hs.iter().copied().filter(|h| *h >= last_h && view_at(*h, &batches) == got).collect();
		if cand.is_empty() {
			// explain: is it a failed commit showing, or a torn / out-of-order view?
			let failed_visible = batches.iter().any(|b| b.4 && got.values().any(|v| *v == b.0));
			viol.push(json!({"kind": if failed_visible {"failed_commit_visible"} else {"not_a_prefix_of_commit_order"},
				"step": i, "seen": got, "batches": batches.iter().map(|b| json!({"t":b.0,"seq":b.1,"n":b.2,"failed":b.4})).collect::<Vec<_>>(),
				"previous_horizon": last_h}));
			break;
		}
		// real time: every commit that already returned Ok is included by every admissible horizon
		for t in &returned_ok {
			let b = batches.iter().find(|b| &b.0 == t).unwrap();
			let last = b.1 + b.2 - 1;
			if cand.iter().all(|h| *h < last) {
				viol.push(json!({"kind":"acknowledged_commit_not_visible","step":i,"txn":t,"seen":got}));
			}
		}
		last_h = *cand.iter().min().unwrap();
	}

	// ---- drain: let every committer finish (C17: every commit() returns) --------------------------
	let mut stuck = false;
	for _round in 0..200 {
		let mut progressed = false;
		let mut all_done = true;
		let names: Vec<String> = actors.keys().cloned().collect();
		for n in names {
			let a = actors.get_mut(&n).unwrap();
			if a.done {
				continue;
			}
			all_done = false;
			sink.release(a.token);
			match sink.status(a.token, Duration::from_millis(300)) {
				Status::Parked(site, fields) => {
					let mut o = a.obs.lock().unwrap();
					for (fname, v) in &fields {
						match (site, *fname) {
							("commit.logged", "seq") | ("commit.logfail", "seq") => o.seq = Some(*v),
							("commit.applied", "ok") => o.apply_failed = *v == 0,
							_ => {}
						}
					}
					drop(o);
					a.site = site;
					progressed = true;
				}
				Status::Done => {
					a.done = true;
					if let Some(h) = a.handle.take() {
						let _ = h.join();
					}
					progressed = true;
				}
				Status::Timeout => {}
			}
		}
		if all_done {
			break;
		}
		if !progressed && _round > 60 {
			stuck = true;
			break;
		}
	}
	if stuck {
		let who: Vec<String> = actors.iter().filter(|(_, a)| !a.done).map(|(n, a)| format!("{n}@{}", a.site)).collect();
		viol.push(json!({"kind":"commit_never_returns","stuck":who}));
		// leave the threads behind; nothing else can be judged
		return Ok((viol, drift));
	}

	// ---- final judgement ---------------------------------------------------------------------
	let obs: BTreeMap<String, Obs> = actors.iter().map(|(n, a)| (n.clone(), a.obs.lock().unwrap().clone())).collect();
	for (n, o) in &obs {
		if let Some(r) = &o.result {
			if r.starts_with("Panic") {
				viol.push(json!({"kind":"panic_in_commit","txn":n,"message":r}));
			}
		}
	}
	let committed: Vec<(&String, &Obs)> = obs.iter().filter(|(_, o)| o.result.as_deref() == Some("Ok")).collect();
	for (na, a) in &committed {
		for (nb, b) in &committed {
			if na == nb {
				continue;
			}
			let (ka, kb) = (&actors[*na].keys, &actors[*nb].keys);
			if !ka.iter().any(|k| kb.contains(k)) {
				continue;
			}
			if let (Some(sa), Some(sb), Some(stb)) = (a.seq, b.seq, b.start) {
				let last_a = sa + ka.len() as u64 + actors[*na].dup - 1;
				if sa < sb && stb < last_a {
					viol.push(json!({"kind":"both_overlapping_writers_committed","first":na,"second":nb,
						"first_last_seq":last_a,"second_start":stb,"by":"sequence_numbers"}));
				}
			}
		}
	}
	// The property's own formulation, without trusting the sequence numbers for WHO overlapped: order the committed
	// writers of every key by their commit order; each must have had its predecessor's write in its snapshot (what it
	// read right after begin). A writer that committed on top of a version it never saw is a lost update.
	for k in &all_keys {
		let mut ws: Vec<(&String, &Obs)> = committed.iter().filter(|(n, _)| actors[*n].keys.contains(k)).map(|(n, o)| (*n, *o)).collect();
		ws.sort_by_key(|(_, o)| o.seq.unwrap_or(0));
		for w in ws.windows(2) {
			let (pn, _po) = w[0];
			let (nn, no) = w[1];
			let saw = no.seen.get(k).cloned().unwrap_or_default();
			if &saw != pn {
				viol.push(json!({"kind":"both_overlapping_writers_committed","by":"snapshot_of_later_writer","key":k,
					"earlier":pn,"later":nn,"later_saw":saw}));
			}
		}
	}
	// final state = newest committed writer per key; failed / conflicting writers left nothing
	let batches: Vec<(String, u64, u64, Vec<String>, bool)> = obs
		.iter()
		.filter_map(|(n, o)| o.seq.map(|s| (n.clone(), s, actors[n].keys.len() as u64 + actors[n].dup, actors[n].keys.clone(), o.result.as_deref() != Some("Ok"))))
		.collect();
	let want = view_at(u64::MAX - 1, &batches);
	let got = probe(&tree, &all_keys)?;
	if got != want {
		let failed_visible = batches.iter().any(|b| b.4 && got.values().any(|v| *v == b.0));
		viol.push(json!({"kind": if failed_visible {"failed_commit_visible"} else {"final_state_wrong"}, "want": want, "got": got,
			"results": obs.iter().map(|(n,o)| (n.clone(), o.result.clone())).collect::<BTreeMap<_,_>>() }));
	}
	// the same after close + reopen (a failed commit must not come back from the log)
	// C17: close() returns - a hang of the code under test is data, not a hung tool
	let closed = rt.block_on(async { tokio::time::timeout(Duration::from_secs(20), tree.close()).await });
	if closed.is_err() {
		viol.push(json!({"kind":"close_never_returns","detail":"close() after every commit had returned did not finish within 20 s",
			"results": obs.iter().map(|(n,o)| (n.clone(), o.result.clone())).collect::<BTreeMap<_,_>>() }));
		std::mem::forget(tree);
		std::mem::forget(dir);
		return Ok((viol, drift));
	}
	drop(tree);
	if reopen {
		match TreeBuilder::with_options(opts).build() {
			Ok(t2) => {
				let got2 = probe(&t2, &all_keys)?;
				if got2 != want {
					let fault = obs.iter().find(|(n, o)| o.result.as_deref() != Some("Ok") && got2.values().any(|v| v == *n));
					viol.push(json!({"kind":"failed_commit_replayed_after_reopen","want":want,"got":got2,
						"fault": fault.map(|(_, o)| if o.apply_failed {"apply"} else if o.log_failed {"log"} else {"other"})}));
				}
				let _ = rt.block_on(t2.close());
			}
			Err(e) => viol.push(json!({"kind":"reopen_refused","error":e.to_string()})),
		}
	}
	// conformance with the spec's predictions (only when the schedule ran to the end undisturbed)
	if let Some(exp) = sc["expect"]["res"].as_object() {
		for (n, r) in exp {
			let spec = r.as_str().unwrap_or("");
			if spec == "none" {
				continue;
			}
			let real = obs.get(n).and_then(|o| o.result.clone()).unwrap_or_default();
			let same = match spec {
				"Ok" => real == "Ok",
				"Conflict" => real == "Conflict",
				"Retry" => real == "Retry",
				_ => real.starts_with("Err"),
			};
			if !same {
				drift.push(json!({"kind":"result_differs_from_spec","txn":n,"spec":spec,"real":real}));
			}
		}
	}
	Ok((viol, drift))
}

fn main() {
	let args: Vec<String> = std::env::args().collect();
	if args.len() < 2 {
		eprintln!("usage: commit_sched <file> [--jobs N] [--no-reopen]");
		std::process::exit(2);
	}
	let argval = |name: &str| args.iter().position(|a| a == name).and_then(|i| args.get(i + 1)).cloned();
	let jobs: usize = argval("--jobs").map(|s| s.parse().unwrap()).unwrap_or(8);
	let reopen = !args.iter().any(|a| a == "--no-reopen");
	verif_harness::quiet_panics();
	let sink = GateSink::install();
	let f = std::fs::File::open(&args[1]).unwrap_or_else(|e| {
		eprintln!("cannot open {}: {e}", args[1]);
		std::process::exit(2)
	});
	let mut scenarios: Vec<Value> = Vec::new();
	for line in BufReader::new(f).lines() {
		let line = line.unwrap();
		let text: String = if line.starts_with("\"REPLAY ") {
			let s: String = serde_json::from_str(&line).unwrap();
			s["REPLAY ".len()..].to_string()
		} else if line.starts_with('{') {
			line
		} else {
			continue;
		};
		scenarios.push(serde_json::from_str(&text).unwrap());
	}
	let sum = Arc::new(Mutex::new(Summary::new("commit_sched")));
	let next = Arc::new(AtomicU64::new(0));
	let scenarios = Arc::new(scenarios);
	let mut hs = Vec::new();
	for _ in 0..jobs {
		let (sum, next, scenarios, sink) = (sum.clone(), next.clone(), scenarios.clone(), sink.clone());
		hs.push(std::thread::spawn(move || loop {
			let i = next.fetch_add(1, Ordering::SeqCst) as usize;
			if i >= scenarios.len() {
				break;
			}
			let sc = &scenarios[i];
			let res = verif_harness::catch(|| run_schedule(sc, &sink, reopen));
			let mut s = sum.lock().unwrap();
			s.cases += 1;
			s.steps += sc["steps"].as_array().map(|a| a.len()).unwrap_or(0) as u64;
			if i % 3000 == 0 {
				s.sample(sc.clone());
			}
			match res {
				Ok(Ok((viol, drift))) => {
					for mut v in viol {
						v["schedule"] = sc.clone();
						s.violation(v);
					}
					for mut d in drift {
						d["schedule_steps"] = json!(sc["steps"]
							.as_array()
							.map(|a| a.iter().map(|x| format!("{}:{}", x["a"].as_str().unwrap_or(""), x["t"].as_str().unwrap_or(""))).collect::<Vec<_>>().join(" "))
							.unwrap_or_default());
						s.drift(d);
					}
				}
				Ok(Err(e)) => s.violation(json!({"kind":"engine_error","error":e,"schedule":sc})),
				Err(p) => s.violation(json!({"kind":"panic","message":p,"schedule":sc})),
			}
		}));
	}
	for h in hs {
		let _ = h.join();
	}
	sum.lock().unwrap().print();
}
