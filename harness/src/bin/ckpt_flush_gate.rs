//! C07 / C14 directed scenario for spec/background/FlushQueue.tla: the background flush task is held inside the flush of
//! an immutable memtable (gate flush.written: table written, not yet installed); create_checkpoint() on another thread
//! flushes the immutable memtables too. It must not be inside the flush of the SAME table at the same time
//! (OneWriterPerFile); afterwards the store and the checkpoint must be intact.
//!
//! usage: ckpt_flush_gate
use std::sync::mpsc::channel;
use std::time::Duration;

use serde_json::json;
use surrealkv::{Options, TreeBuilder};
use verif_harness::out::Summary;
use verif_harness::sched::{GateSink, Status};

const TASK: u64 = 100;
const CKPT: u64 = 200;

fn opts(path: &std::path::Path) -> Options {
	let mut o = Options::new().with_path(path.to_path_buf()).with_max_memtable_size(32 * 1024);
	o.level0_max_files = 64;
	o.with_l0_stall_threshold(64).with_memtable_stall_threshold(64)
}

fn field(f: &[(&'static str, u64)], name: &str) -> u64 {
	f.iter().find(|(n, _)| *n == name).map(|(_, v)| *v).unwrap_or(0)
}

fn main() {
	verif_harness::quiet_panics();
	let sink = GateSink::install();
	let mut sum = Summary::new("ckpt_flush_gate");
	for round in 0..3u64 {
		sum.cases += 1;
		sink.free_run(false);
		sink.reset();
		sink.gate_site("flush.written", TASK);
		let base = verif_harness::scratch_dir("cfg");
		let rt = verif_harness::rt_multi(3);
		let _g = rt.enter();
		let tree = TreeBuilder::with_options(opts(&base.path().join("db"))).build().expect("open");
		// fill: the second large commit rotates and wakes the flush task, which parks inside its flush
		let mut n = 0u64;
		let mut commit = |tree: &surrealkv::Tree| {
			n += 1;
			let mut t = tree.begin().unwrap();
			t.set(format!("k{n:04}").into_bytes(), vec![(n % 251) as u8; 20_000]).unwrap();
			rt.block_on(t.commit()).map(|_| n)
		};
		for _ in 0..(2 + round) {
			commit(&tree).expect("commit");
		}
		let task_table = match sink.status(TASK, Duration::from_secs(10)) {
			Status::Parked("flush.written", f) => field(&f, "table"),
			other => {
				sum.drift(json!({"kind":"flush_task_not_parked","status":format!("{other:?}")}));
				sink.free_run(true);
				continue;
			}
		};
		// the checkpoint on its own thread, an actor: it parks at flush.written too if it gets there
		let (tx, rx) = channel();
		let (t2, s2) = (tree.clone(), sink.clone());
		let ck = base.path().join("ck");
		let ck2 = ck.clone();
		let rth = rt.handle().clone();
		std::thread::spawn(move || {
			// (the flush inside create_checkpoint spawns the commit-log clean-up: it needs a runtime context)
			let _g = rth.enter();
			GateSink::enroll(CKPT);
			let r = match verif_harness::catch(|| t2.create_checkpoint(&ck2).map(|_| ()).map_err(|e| e.to_string())) {
				Ok(r) => r,
				Err(p) => Err(format!("PANIC: {p}")),
			};
			s2.finish(CKPT);
			let _ = tx.send(r);
		});
		match sink.status(CKPT, Duration::from_millis(1500)) {
			Status::Parked("flush.written", f) if field(&f, "table") == task_table => {
				sum.violation(json!({"kind":"two_flushers_in_one_table","table":task_table,
					"detail":"create_checkpoint and the flush task are both between writing and installing the same table file"}));
			}
			Status::Parked(site, f) => {
				// some other gate / another table: fine
				sum.sample(json!({"checkpoint_parked_at": site, "table": field(&f, "table"), "task_table": task_table}));
			}
			Status::Timeout => sum.sample(json!({"checkpoint": "waits while the flush task is inside its flush", "task_table": task_table})),
			Status::Done => sum.sample(json!({"checkpoint": "finished before the task's flush was installed"})),
		}
		// let everything go on
		sink.free_run(true);
		let ck_res = rx.recv_timeout(Duration::from_secs(30));
		match &ck_res {
			Ok(Ok(())) => {}
			Ok(Err(e)) if e.starts_with("PANIC") => sum.violation(json!({"kind":"panic","message":e})),
			Ok(Err(e)) => sum.violation(json!({"kind":"checkpoint_failed","error":e})),
			Err(_) => sum.violation(json!({"kind":"close_never_returns","detail":"create_checkpoint did not return within 30 s"})),
		}
		std::thread::sleep(Duration::from_millis(100));
		// the store is intact, now and after a reopen; the checkpoint opens and holds what was committed
		let check = |t: &surrealkv::Tree, what: &str, sum: &mut Summary, upto: u64| {
			if let Ok(r) = t.begin() {
				for i in 1..=upto {
					match r.get(format!("k{i:04}").as_bytes()) {
						Ok(Some(v)) if v == vec![(i % 251) as u8; 20_000] => {}
						Ok(other) => sum.violation(json!({"kind":"acknowledged_commit_lost","i":i,"what":what,"got":other.map(|v| v.len())})),
						Err(e) => sum.violation(json!({"kind":"read_error","i":i,"what":what,"error":e.to_string()})),
					}
				}
			}
		};
		let total = n;
		check(&tree, "live store", &mut sum, total);
		let _ = rt.block_on(tree.close());
		drop(tree);
		match TreeBuilder::with_options(opts(&base.path().join("db"))).build() {
			Ok(t) => {
				check(&t, "after reopen", &mut sum, total);
				let _ = rt.block_on(t.close());
			}
			Err(e) => sum.violation(json!({"kind":"reopen_refused","error":e.to_string()})),
		}
		if matches!(ck_res, Ok(Ok(()))) {
			match TreeBuilder::with_options(opts(&ck)).build() {
				Ok(t) => {
					check(&t, "checkpoint", &mut sum, total);
					let _ = rt.block_on(t.close());
				}
				Err(e) => sum.violation(json!({"kind":"checkpoint_unopenable","error":e.to_string()})),
			}
		}
	}
	sum.print();
}
