//! C19 spec -> implementation: replays the behaviours exported by TLC from
//! spec/lock/LockMC.tla (one per explored transition, or random ones from
//! -simulate) with REAL processes on a real database directory.
//!
//! usage: lock_run <file-with-TLC-output-or-ndjson> [--threads N] [--max-cases N] [--seed S]
//!        lock_run --race <rounds> [--seed S]        hook-free concurrency stress
//!        lock_run --worker                           (internal: a worker process)
//!
//! A behaviour is a list of model steps addressed to opener slots ("o1", ...)
//! that live in OS processes ("p1", ...).  Every model process is a child
//! process (this binary with --worker) driven over pipes; every slot is a
//! thread of that process with its own current-thread tokio runtime.  The four
//! gate sites of src/lockfile.rs (`lock_try`, `lock_acquired`, `lock_release`,
//! `lock_released`) park the slot thread, so the coordinator can realise
//! TLC's interleaving of build() / close() / Drop-spawned close() exactly.
//!
//! Judgement (decides; everything is evaluated on REAL outcomes with a ghost
//! state kept by the coordinator from those outcomes, never from the model):
//!   second_open_succeeded      build() returned Ok while another store is live
//!   touched_while_other_live   a step of X changed database files while a store Y != X is live
//!   refused_open_touched_data  a refused build() changed a file other than LOCK
//!   live_store_not_functional  commit + read back on a live store failed
//!   reopen_refused             nothing live, nothing in flight, nothing damaged: build() failed
//!   data_lost / data_wrong     a key that must have survived is gone / has another value
//!   hang / crash / panic       the code under test did not come back
//! Drift (informational): the real outcome differs from the model's prediction
//! without breaking the property (error variant, gate order, LOCK text ...).

use std::cell::{Cell, RefCell};
use std::collections::hash_map::DefaultHasher;
use std::collections::{BTreeMap, BTreeSet, HashMap, HashSet};
use std::hash::{Hash, Hasher};
use std::io::{BufRead, BufReader, Write};
use std::path::{Path, PathBuf};
use std::process::{Child, ChildStdin, Command, Stdio};
use std::sync::mpsc::{channel, Receiver, RecvTimeoutError, Sender};
use std::sync::{Arc, Mutex};
use std::time::Duration;

use serde_json::{json, Value};
use verif_harness::out::Summary;

// =====================================================================================
// worker process
// =====================================================================================
mod worker {
	use super::*;
	use surrealkv::{Options, Tree, TreeBuilder, WalRecoveryMode};

	thread_local! {
		static SLOT_ID: Cell<Option<u64>> = const { Cell::new(None) };
		static PARK: RefCell<HashSet<String>> = RefCell::new(HashSet::new());
		static RX: RefCell<Option<Receiver<Value>>> = const { RefCell::new(None) };
	}

	fn out(v: Value) {
		let so = std::io::stdout();
		let mut l = so.lock();
		let _ = writeln!(l, "{v}");
		let _ = l.flush();
	}

	fn set_park(msg: &Value) {
		if let Some(a) = msg.get("park").and_then(|p| p.as_array()) {
			let set: HashSet<String> = a.iter().filter_map(|x| x.as_str().map(String::from)).collect();
			let _ = PARK.try_with(|p| *p.borrow_mut() = set);
		}
	}

	struct GateSink;
	impl surrealkv::verif::Sink for GateSink {
		fn emit(&self, _t: u64, _site: &'static str, _f: &[(&'static str, u64)]) {}
		fn gate(&self, _t: u64, site: &'static str, _f: &[(&'static str, u64)]) {
			let id = match SLOT_ID.try_with(|s| s.get()) {
				Ok(Some(id)) => id,
				_ => return,
			};
			let parks = PARK.try_with(|p| p.borrow().contains(site)).unwrap_or(false);
			if !parks {
				return;
			}
			out(json!({"slot": id, "at": site}));
			let msg = RX.try_with(|r| r.borrow().as_ref().map(|rx| rx.recv()));
			match msg {
				Ok(Some(Ok(v))) => set_park(&v),
				_ => std::process::exit(3),
			}
		}
	}

	fn fmt_err<E: std::fmt::Display>(e: E) -> String {
		format!("{e}")
	}

	fn exec(msg: &Value, rt: &mut Option<tokio::runtime::Runtime>, trees: &mut Vec<Tree>) -> Value {
		let cmd = msg["cmd"].as_str().unwrap_or("");
		let r = rt.as_ref().expect("runtime");
		match cmd {
			"open" => {
				if !trees.is_empty() {
					return json!({"ok": false, "err": "protocol: slot already has a store"});
				}
				let mut o = Options::default()
					.with_path(PathBuf::from(msg["path"].as_str().unwrap()))
					.with_flush_on_close(msg["foc"].as_bool().unwrap_or(true));
				if msg["strict"].as_bool().unwrap_or(false) {
					o = o.with_wal_recovery_mode(WalRecoveryMode::AbsoluteConsistency);
				}
				let _g = r.enter();
				match TreeBuilder::with_options(o).build() {
					Ok(t) => {
						trees.push(t);
						json!({"ok": true})
					}
					Err(e) => {
						let s = fmt_err(&e);
						json!({"ok": false, "locked": s.contains("already locked"), "err": s})
					}
				}
			}
			"commit" => {
				let Some(t) = trees.first() else {
					return json!({"ok": false, "err": "protocol: no store"});
				};
				let k = msg["key"].as_str().unwrap().as_bytes().to_vec();
				let v = msg["val"].as_str().unwrap().as_bytes().to_vec();
				let res: Result<(), String> = (|| {
					let mut txn = t.begin().map_err(fmt_err)?;
					txn.set(k.clone(), v.clone()).map_err(fmt_err)?;
					r.block_on(txn.commit()).map_err(fmt_err)?;
					let rd = t.begin().map_err(fmt_err)?;
					let got = rd.get(k.clone()).map_err(fmt_err)?;
					if got.as_deref() != Some(&v[..]) {
						return Err(format!("read back {:?}", got.map(|g| String::from_utf8_lossy(&g).to_string())));
					}
					Ok(())
				})();
				match res {
					Ok(()) => json!({"ok": true}),
					Err(e) => json!({"ok": false, "err": e}),
				}
			}
			"read" => {
				let Some(t) = trees.first() else {
					return json!({"ok": false, "err": "protocol: no store"});
				};
				let mut vals = serde_json::Map::new();
				let res: Result<(), String> = (|| {
					let rd = t.begin().map_err(fmt_err)?;
					for k in msg["keys"].as_array().unwrap() {
						let k = k.as_str().unwrap();
						let got = rd.get(k.as_bytes().to_vec()).map_err(fmt_err)?;
						vals.insert(
							k.to_string(),
							match got {
								Some(b) => json!(String::from_utf8_lossy(&b).to_string()),
								None => Value::Null,
							},
						);
					}
					Ok(())
				})();
				match res {
					Ok(()) => json!({"ok": true, "vals": vals}),
					Err(e) => json!({"ok": false, "err": e}),
				}
			}
			"clone" => match trees.first() {
				Some(t) => {
					let c = t.clone();
					trees.push(c);
					json!({"ok": true})
				}
				None => json!({"ok": false, "err": "protocol: no store"}),
			},
			"drophandle" => match trees.pop() {
				Some(t) => {
					if msg["ctx"].as_str() == Some("rt") {
						let _g = r.enter();
						drop(t);
					} else {
						drop(t);
					}
					json!({"ok": true})
				}
				None => json!({"ok": false, "err": "protocol: no handle"}),
			},
			"close" => match trees.first() {
				Some(t) => match r.block_on(t.close()) {
					Ok(()) => json!({"ok": true}),
					Err(e) => json!({"ok": false, "err": fmt_err(e)}),
				},
				None => json!({"ok": false, "err": "protocol: no store"}),
			},
			"settle" => {
				let ms = msg["ms"].as_u64().unwrap_or(2);
				r.block_on(async {
					for _ in 0..16 {
						tokio::task::yield_now().await;
					}
					tokio::time::sleep(Duration::from_millis(ms)).await;
					for _ in 0..16 {
						tokio::task::yield_now().await;
					}
				});
				json!({"ok": true})
			}
			"rtrestart" => {
				trees.clear();
				drop(rt.take());
				*rt = Some(verif_harness::rt());
				json!({"ok": true})
			}
			"ping" => json!({"ok": true, "pid": std::process::id()}),
			other => json!({"ok": false, "err": format!("protocol: unknown command {other}")}),
		}
	}

	fn slot_main(id: u64, rx: Receiver<Value>) {
		SLOT_ID.with(|s| s.set(Some(id)));
		RX.with(|r| *r.borrow_mut() = Some(rx));
		let mut rt = Some(verif_harness::rt());
		let mut trees: Vec<Tree> = Vec::new();
		loop {
			let msg = RX.with(|r| r.borrow().as_ref().unwrap().recv());
			let Ok(msg) = msg else { return };
			if msg["cmd"] == "go" {
				out(json!({"slot": id, "done": {"ok": false, "err": "protocol: not parked"}}));
				continue;
			}
			PARK.with(|p| p.borrow_mut().clear());
			set_park(&msg);
			let res = verif_harness::catch(|| exec(&msg, &mut rt, &mut trees));
			PARK.with(|p| p.borrow_mut().clear());
			let done = match res {
				Ok(v) => v,
				Err(p) => json!({"ok": false, "panic": p}),
			};
			out(json!({"slot": id, "done": done}));
		}
	}

	pub fn main() {
		verif_harness::quiet_panics();
		surrealkv::verif::set_sink(Some(Arc::new(GateSink)));
		let stdin = std::io::stdin();
		let mut senders: HashMap<u64, Sender<Value>> = HashMap::new();
		for line in stdin.lock().lines() {
			let Ok(line) = line else { break };
			let Ok(v) = serde_json::from_str::<Value>(&line) else { continue };
			if v["cmd"] == "exit" {
				std::process::exit(0);
			}
			let id = v["slot"].as_u64().unwrap_or(0);
			let tx = senders.entry(id).or_insert_with(|| {
				let (tx, rx) = channel();
				std::thread::spawn(move || slot_main(id, rx));
				tx
			});
			let _ = tx.send(v);
		}
		std::process::exit(0);
	}
}

// =====================================================================================
// coordinator side: a worker process
// =====================================================================================
enum Ev {
	At(String),
	Done(Value),
	Hang,
	Died,
}

struct Worker {
	child: Child,
	stdin: Option<ChildStdin>,
	rx: Receiver<Value>,
}

impl Worker {
	fn spawn() -> Worker {
		let exe = std::env::current_exe().expect("current_exe");
		let mut cmd = Command::new(exe);
		cmd.arg("--worker").stdin(Stdio::piped()).stdout(Stdio::piped()).env("RUST_BACKTRACE", "0");
		if std::env::var("LOCK_RUN_DEBUG").is_ok() {
			cmd.stderr(Stdio::inherit());
		} else {
			cmd.stderr(Stdio::null());
		}
		let mut child = cmd.spawn().expect("spawn worker");
		let stdout = child.stdout.take().unwrap();
		let stdin = child.stdin.take();
		let (tx, rx) = channel();
		std::thread::spawn(move || {
			for line in BufReader::new(stdout).lines() {
				let Ok(line) = line else { break };
				if let Ok(v) = serde_json::from_str::<Value>(&line) {
					if tx.send(v).is_err() {
						break;
					}
				}
			}
		});
		Worker { child, stdin, rx }
	}

	fn send(&mut self, v: &Value) -> bool {
		match self.stdin.as_mut() {
			Some(s) => writeln!(s, "{v}").and_then(|_| s.flush()).is_ok(),
			None => false,
		}
	}

	fn recv(&mut self, hang: Duration) -> Ev {
		match self.rx.recv_timeout(hang) {
			Ok(v) => {
				if let Some(site) = v.get("at").and_then(|s| s.as_str()) {
					Ev::At(site.to_string())
				} else {
					Ev::Done(v["done"].clone())
				}
			}
			Err(RecvTimeoutError::Timeout) => Ev::Hang,
			Err(RecvTimeoutError::Disconnected) => Ev::Died,
		}
	}

	/// SIGKILL and reap: when this returns the kernel has closed every descriptor of the process.
	fn kill(&mut self) {
		let _ = self.child.kill();
		let _ = self.child.wait();
		self.stdin = None;
	}

	/// exit(0) without closing anything, then reap.
	fn exit(&mut self, hang: Duration) -> bool {
		let _ = self.send(&json!({"cmd": "exit"}));
		let t0 = std::time::Instant::now();
		loop {
			match self.child.try_wait() {
				Ok(Some(_)) => {
					self.stdin = None;
					return true;
				}
				Ok(None) if t0.elapsed() < hang => std::thread::sleep(Duration::from_millis(1)),
				_ => {
					self.kill();
					return false;
				}
			}
		}
	}
}

impl Drop for Worker {
	fn drop(&mut self) {
		self.kill();
	}
}

// =====================================================================================
// directory digest
// =====================================================================================
type Digest = BTreeMap<String, (u64, u64)>;

fn walk(base: &Path, rel: &str, files: &mut Digest, dirs: &mut BTreeSet<String>) {
	let here = if rel.is_empty() { base.to_path_buf() } else { base.join(rel) };
	let Ok(rd) = std::fs::read_dir(&here) else { return };
	for e in rd.flatten() {
		let name = e.file_name().to_string_lossy().to_string();
		let r = if rel.is_empty() { name.clone() } else { format!("{rel}/{name}") };
		let Ok(ft) = e.file_type() else { continue };
		if ft.is_dir() {
			dirs.insert(r.clone());
			walk(base, &r, files, dirs);
		} else {
			if rel.is_empty() && name == "LOCK" {
				continue; // informational pid text: not data (property C19, DESIGN section 8 item 18)
			}
			let bytes = std::fs::read(e.path()).unwrap_or_default();
			let mut h = DefaultHasher::new();
			bytes.hash(&mut h);
			files.insert(r, (bytes.len() as u64, h.finish()));
		}
	}
}

fn digest(db: &Path) -> (Digest, BTreeSet<String>) {
	let mut f = Digest::new();
	let mut d = BTreeSet::new();
	walk(db, "", &mut f, &mut d);
	(f, d)
}

fn diff(a: &Digest, b: &Digest) -> Vec<String> {
	let mut out = Vec::new();
	for (k, v) in a {
		match b.get(k) {
			None => out.push(format!("-{k}")),
			Some(w) if w != v => out.push(format!("~{k}")),
			_ => {}
		}
	}
	for k in b.keys() {
		if !a.contains_key(k) {
			out.push(format!("+{k}"));
		}
	}
	out
}

// =====================================================================================
// executing one behaviour
// =====================================================================================
#[derive(Clone, Copy, PartialEq, Eq, Debug)]
enum Phase {
	None,    // no store
	Opening, // build() running
	Live,    // build() returned Ok; not closed, not dropped
	Closing, // close() running
	Closed,  // close() returned, a handle is still held
}

#[derive(Clone, Copy, PartialEq, Eq, Debug)]
enum Call {
	Open,
	Close,
	Settle,
}

struct Slot {
	proc_: String,
	idx: u64,
	phase: Phase,
	handles: u32,
	clone_dropped: bool,
	asyncp: bool, // a close() spawned by Drop may still be pending
	parked: Option<String>,
	call: Option<Call>,
	touched: Vec<String>,
	must_at_try: Option<&'static str>,
	past_lock: bool,
	keys: Vec<(String, String)>, // acknowledged by this store, not yet known durable
	opens: u32,
}

struct Viol {
	kind: &'static str,
	sig: Value,
	what: String,
}

struct Exec<'a> {
	case_idx: u64,
	hang: Duration,
	root: &'a Path,
	db: PathBuf,
	workers: HashMap<String, Worker>,
	slots: BTreeMap<String, Slot>,
	order: Vec<String>,
	must: BTreeMap<String, String>,
	may: BTreeMap<String, String>,
	damage: Option<(String, PathBuf, Vec<u8>)>,
	last_owner_end: &'static str,
	foc: bool,
	nkeys: u32,
	steps: u64,
	drift: Vec<Value>,
	log: Vec<Value>,
	ops_seen: BTreeSet<String>,
	helper_ran: bool,
}

type R<T> = Result<T, Viol>;

const PARK_OPEN: [&str; 2] = ["lock_try", "lock_acquired"];
const PARK_CLOSE: [&str; 2] = ["lock_release", "lock_released"];

impl<'a> Exec<'a> {
	fn new(case_idx: u64, root: &'a Path, hang: Duration) -> Self {
		let db = root.join("db");
		// the database directory exists and is empty at the start (the path aliases need it)
		std::fs::create_dir_all(&db).ok();
		std::fs::create_dir_all(root.join("x")).ok();
		#[cfg(unix)]
		{
			let _ = std::os::unix::fs::symlink("db", root.join("link"));
		}
		Exec {
			case_idx,
			hang,
			root,
			db,
			workers: HashMap::new(),
			slots: BTreeMap::new(),
			order: Vec::new(),
			must: BTreeMap::new(),
			may: BTreeMap::new(),
			damage: None,
			last_owner_end: "none",
			foc: case_idx % 4 != 3,
			nkeys: 0,
			steps: 0,
			drift: Vec::new(),
			log: Vec::new(),
			ops_seen: BTreeSet::new(),
			helper_ran: false,
		}
	}

	// ---- ghost state (from real outcomes only) -------------------------------------
	fn live_others(&self, me: &str) -> Vec<String> {
		self.slots.iter().filter(|(n, s)| n.as_str() != me && s.phase == Phase::Live).map(|(n, _)| n.clone()).collect()
	}

	fn limbo_others(&self, me: &str) -> bool {
		self.slots
			.iter()
			.any(|(n, s)| n.as_str() != me && (s.phase == Phase::Opening || s.phase == Phase::Closing || s.asyncp || s.parked.is_some()))
	}

	/// What the property demands of a build() attempted now by `me`.
	fn must_now(&self, me: &str) -> &'static str {
		if !self.live_others(me).is_empty() {
			"refuse"
		} else if !self.limbo_others(me) && self.damage.is_none() && !self.slots.get(me).map(|s| s.asyncp).unwrap_or(false) {
			"accept"
		} else {
			"any"
		}
	}

	fn holder_state(&self, who: &str) -> &'static str {
		match self.slots.get(who) {
			Some(s) if s.clone_dropped => "clone_dropped",
			_ => "intact",
		}
	}

	fn drift(&mut self, what: &str, detail: Value) {
		if self.drift.len() < 8 {
			self.drift.push(json!({"what": what, "detail": detail, "step": self.steps}));
		}
	}

	// ---- plumbing ---------------------------------------------------------------------
	fn path_for(&self, slot: &str, n: u32) -> PathBuf {
		let mut h = DefaultHasher::new();
		(self.case_idx, slot, n).hash(&mut h);
		match h.finish() % 4 {
			0 => self.db.clone(),
			1 => self.db.join("."),
			2 => self.root.join("link"),
			_ => self.root.join("x").join("..").join("db"),
		}
	}

	fn plant_canaries(&self) {
		// files that only recovery removes (orphan table, stale WAL repair file): a build() that
		// runs recovery steps before owning the lock makes them disappear
		let sst = self.db.join("sstables");
		if sst.is_dir() {
			let p = sst.join("00000000000000999999.sst");
			if !p.exists() {
				let _ = std::fs::write(p, b"canary: orphan table");
			}
		}
		let wal = self.db.join("wal");
		if wal.is_dir() {
			let p = wal.join("00000000000000000000.wal.repair");
			if !p.exists() {
				let _ = std::fs::write(p, b"canary: stale repair file");
			}
		}
	}

	fn ensure_slot(&mut self, name: &str, proc_: &str) {
		if !self.slots.contains_key(name) {
			let idx = self.order.len() as u64 + 1;
			self.order.push(name.to_string());
			self.slots.insert(
				name.to_string(),
				Slot {
					proc_: proc_.to_string(),
					idx,
					phase: Phase::None,
					handles: 0,
					clone_dropped: false,
					asyncp: false,
					parked: None,
					call: None,
					touched: Vec::new(),
					must_at_try: None,
					past_lock: false,
					keys: Vec::new(),
					opens: 0,
				},
			);
		}
		if !self.workers.contains_key(proc_) {
			self.workers.insert(proc_.to_string(), Worker::spawn());
		}
	}

	/// One exchange with a slot (a command or a `go`), with the directory digest taken before
	/// and after; every change is attributed to that slot and judged.
	fn exchange(&mut self, slot: &str, msg: Value, during: &str) -> R<Ev> {
		self.steps += 1;
		let (proc_, idx) = {
			let s = &self.slots[slot];
			(s.proc_.clone(), s.idx)
		};
		let mut m = msg;
		m["slot"] = json!(idx);
		let d0 = digest(&self.db);
		let hang = self.hang;
		let w = self.workers.get_mut(&proc_).expect("worker");
		if !w.send(&m) {
			return Err(self.crash(slot, during, "pipe closed"));
		}
		let ev = w.recv(hang);
		let d1 = digest(&self.db);
		let changed = diff(&d0.0, &d1.0);
		let newdirs: Vec<String> = d1.1.difference(&d0.1).cloned().collect();
		if self.log.len() < 200 {
			self.log.push(json!({"slot": slot, "cmd": m["cmd"], "during": during, "ev": match &ev {
				Ev::At(s) => json!({"at": s}), Ev::Done(v) => json!({"done": v}), Ev::Hang => json!("hang"), Ev::Died => json!("died")},
				"changed": changed}));
		}
		match &ev {
			Ev::Hang => {
				let v = Viol {
					kind: "hang",
					sig: json!({"kind": "hang", "during": during}),
					what: format!("slot {slot} did not answer within {:?} during {during}", self.hang),
				};
				return Err(v);
			}
			Ev::Died => return Err(self.crash(slot, during, "worker process died")),
			Ev::Done(v) if v.get("panic").is_some() => {
				return Err(Viol {
					kind: "panic",
					sig: json!({"kind": "panic", "during": during}),
					what: format!("panic in slot {slot} during {during}: {}", v["panic"]),
				});
			}
			_ => {}
		}
		if !changed.is_empty() {
			let others = self.live_others(slot);
			if let Some(other) = others.first() {
				let hs = self.holder_state(other);
				return Err(Viol {
					kind: "touched_while_other_live",
					sig: json!({"kind": "touched_while_other_live", "during": during, "holder": hs}),
					what: format!("{during} of {slot} changed {changed:?} while the store of {other} is live"),
				});
			}
			if let Some(s) = self.slots.get_mut(slot) {
				if s.call == Some(Call::Open) {
					s.touched.extend(changed.iter().cloned());
				}
			}
		}
		if !newdirs.is_empty() && !self.live_others(slot).is_empty() {
			self.drift("directory_created_while_other_live", json!(newdirs));
		}
		match &ev {
			Ev::At(site) => self.slots.get_mut(slot).unwrap().parked = Some(site.clone()),
			_ => self.slots.get_mut(slot).unwrap().parked = None,
		}
		Ok(ev)
	}

	fn crash(&self, slot: &str, during: &str, why: &str) -> Viol {
		Viol {
			kind: "crash",
			sig: json!({"kind": "crash", "during": during}),
			what: format!("{why}: slot {slot} during {during}"),
		}
	}

	// ---- build() ----------------------------------------------------------------------------
	fn open_begin(&mut self, slot: &str, park: bool) -> R<()> {
		self.plant_canaries();
		let n = {
			let s = self.slots.get_mut(slot).unwrap();
			s.opens += 1;
			s.phase = Phase::Opening;
			s.call = Some(Call::Open);
			s.touched.clear();
			s.past_lock = false;
			s.must_at_try = None;
			s.opens
		};
		let must0 = self.must_now(slot);
		self.slots.get_mut(slot).unwrap().must_at_try = Some(must0);
		let path = self.path_for(slot, n);
		// `lock_acquired` is always a stop: it tells whether build() got past the lock
		let park_sites: Vec<&str> = if park { PARK_OPEN.to_vec() } else { vec!["lock_acquired"] };
		let msg = json!({"cmd": "open", "path": path.to_string_lossy(), "foc": self.foc, "strict": true, "park": park_sites});
		let ev = self.exchange(slot, msg, "open")?;
		self.open_event(slot, ev)
	}

	fn open_go(&mut self, slot: &str) -> R<()> {
		if self.slots[slot].parked.as_deref() == Some("lock_try") {
			let m = self.must_now(slot);
			self.slots.get_mut(slot).unwrap().must_at_try = Some(m);
		}
		let ev = self.exchange(slot, json!({"cmd": "go"}), "open")?;
		self.open_event(slot, ev)
	}

	fn open_event(&mut self, slot: &str, ev: Ev) -> R<()> {
		match ev {
			Ev::At(site) => {
				if site == "lock_acquired" {
					self.slots.get_mut(slot).unwrap().past_lock = true;
					let others = self.live_others(slot);
					if let Some(other) = others.first() {
						// the flock was granted while another store is live: let build() finish and judge its result
						let _ = other;
					}
				}
				Ok(())
			}
			Ev::Done(v) => self.open_done(slot, v),
			_ => unreachable!(),
		}
	}

	fn open_done(&mut self, slot: &str, v: Value) -> R<()> {
		let must = self.slots[slot].must_at_try.unwrap_or("any");
		let touched = std::mem::take(&mut self.slots.get_mut(slot).unwrap().touched);
		self.slots.get_mut(slot).unwrap().call = None;
		if v["ok"] == true {
			let others = self.live_others(slot);
			if let Some(other) = others.first() {
				let hs = self.holder_state(other);
				let same = self.slots[other].proc_ == self.slots[slot].proc_;
				return Err(Viol {
					kind: "second_open_succeeded",
					sig: json!({"kind": "second_open_succeeded", "holder": hs, "same_process": same}),
					what: format!("build() of {slot} returned Ok while the store of {other} is live"),
				});
			}
			{
				let s = self.slots.get_mut(slot).unwrap();
				s.phase = Phase::Live;
				s.handles = 1;
				s.clone_dropped = false;
				s.keys.clear();
			}
			self.last_owner_end = "live";
			self.check_data(slot)?;
			// every store writes something: its close() has a memtable to flush and a WAL to retire
			self.commit(slot, "first_commit")?;
			return Ok(());
		}
		// build() failed
		let refused = v["locked"] == true;
		let err = v["err"].as_str().unwrap_or("").to_string();
		if err.starts_with("protocol:") {
			self.drift("protocol", json!(err));
		}
		let past_lock = self.slots[slot].past_lock;
		{
			let s = self.slots.get_mut(slot).unwrap();
			s.phase = Phase::None;
			s.handles = 0;
		}
		if must == "accept" {
			let kind = if refused { "reopen_refused" } else { "open_failed" };
			return Err(Viol {
				kind,
				sig: json!({"kind": kind, "release": self.last_owner_end}),
				what: format!(
					"no store is live, nothing is in flight, nothing is damaged, yet build() of {slot} failed: {err} (last owner ended by: {})",
					self.last_owner_end
				),
			});
		}
		if refused || !past_lock {
			if !touched.is_empty() {
				return Err(Viol {
					kind: "refused_open_touched_data",
					sig: json!({"kind": "refused_open_touched_data"}),
					what: format!("refused build() of {slot} changed {touched:?}"),
				});
			}
		} else if let Some((k, _, _)) = &self.damage {
			self.last_owner_end = if k == "wal" { "failed_open_wal" } else { "failed_open_manifest" };
		}
		// a store that is open stays fully functional after others were refused
		let live: Vec<String> = self.slots.iter().filter(|(_, s)| s.phase == Phase::Live).map(|(n, _)| n.clone()).collect();
		for h in live {
			let s = &self.slots[&h];
			if s.parked.is_none() && !s.asyncp {
				self.commit(&h, "holder_check")?;
				self.check_data(&h)?;
			}
		}
		Ok(())
	}

	// ---- using the store ------------------------------------------------------------------
	fn commit(&mut self, slot: &str, during: &'static str) -> R<bool> {
		self.nkeys += 1;
		let key = format!("c{}-{}-{}", self.case_idx, slot, self.nkeys);
		let val = format!("v{}-{}", self.nkeys, "x".repeat((self.nkeys as usize * 37) % 200));
		let ev = self.exchange(slot, json!({"cmd": "commit", "key": key, "val": val, "park": []}), during)?;
		let Ev::Done(v) = ev else {
			self.drift("unexpected_gate", json!({"during": during}));
			self.finish_call(slot)?;
			return Ok(false);
		};
		let phase = self.slots[slot].phase;
		if v["ok"] == true {
			self.slots.get_mut(slot).unwrap().keys.push((key.clone(), val.clone()));
			self.may.insert(key, val);
			Ok(true)
		} else {
			if phase == Phase::Live {
				let hs = self.holder_state(slot);
				return Err(Viol {
					kind: "live_store_not_functional",
					sig: json!({"kind": "live_store_not_functional", "holder": hs, "during": during}),
					what: format!("commit on the live store of {slot} failed: {}", v["err"]),
				});
			}
			Ok(false)
		}
	}

	/// Everything that must have survived is readable through `slot`; what is found becomes `must`.
	fn check_data(&mut self, slot: &str) -> R<()> {
		let keys: Vec<String> = self.must.keys().chain(self.may.keys()).cloned().collect();
		if keys.is_empty() {
			return Ok(());
		}
		let ev = self.exchange(slot, json!({"cmd": "read", "keys": keys, "park": []}), "read")?;
		let Ev::Done(v) = ev else {
			self.drift("unexpected_gate", json!({"during": "read"}));
			return self.finish_call(slot);
		};
		if v["ok"] != true {
			if self.slots[slot].phase == Phase::Live {
				let hs = self.holder_state(slot);
				return Err(Viol {
					kind: "live_store_not_functional",
					sig: json!({"kind": "live_store_not_functional", "holder": hs, "during": "read"}),
					what: format!("read on the live store of {slot} failed: {}", v["err"]),
				});
			}
			return Ok(());
		}
		let vals = v["vals"].as_object().cloned().unwrap_or_default();
		for (k, want) in self.must.clone() {
			match vals.get(&k) {
				Some(Value::String(got)) if *got == want => {}
				Some(Value::String(got)) => {
					return Err(Viol {
						kind: "data_wrong",
						sig: json!({"kind": "data_wrong"}),
						what: format!("{k}: want {want} got {got} (read through {slot})"),
					})
				}
				_ => {
					return Err(Viol {
						kind: "data_lost",
						sig: json!({"kind": "data_lost", "release": self.last_owner_end}),
						what: format!("{k} committed and closed / observed before is gone (read through {slot})"),
					})
				}
			}
		}
		// a key read back by a LATER store than the one that wrote it came from the files
		let own: HashSet<&String> = self.slots[slot].keys.iter().map(|(k, _)| k).collect();
		let mut promote = Vec::new();
		for (k, want) in &self.may {
			if own.contains(k) {
				continue;
			}
			if let Some(Value::String(got)) = vals.get(k) {
				if got == want {
					promote.push(k.clone());
				} else {
					return Err(Viol {
						kind: "data_wrong",
						sig: json!({"kind": "data_wrong"}),
						what: format!("{k}: want {want} got {got} (read through {slot})"),
					});
				}
			}
		}
		for k in promote {
			let v = self.may.remove(&k).unwrap();
			self.must.insert(k, v);
		}
		Ok(())
	}

	// ---- close() ----------------------------------------------------------------------------
	fn close_begin(&mut self, slot: &str, park: bool) -> R<()> {
		let was_live = {
			let s = self.slots.get_mut(slot).unwrap();
			let was_live = s.phase == Phase::Live;
			if was_live {
				s.phase = Phase::Closing;
			}
			s.call = Some(Call::Close);
			was_live
		};
		if was_live {
			self.last_owner_end = "close";
		}
		let park_sites: Vec<&str> = if park { PARK_CLOSE.to_vec() } else { vec![] };
		let ev = self.exchange(slot, json!({"cmd": "close", "park": park_sites}), "close")?;
		self.close_event(slot, ev)
	}

	fn settle_begin(&mut self, slot: &str, park: bool) -> R<()> {
		self.slots.get_mut(slot).unwrap().call = Some(Call::Settle);
		let park_sites: Vec<&str> = if park { PARK_CLOSE.to_vec() } else { vec![] };
		let ev = self.exchange(slot, json!({"cmd": "settle", "ms": 2, "park": park_sites}), "async_close")?;
		self.close_event(slot, ev)
	}

	fn close_go(&mut self, slot: &str) -> R<()> {
		let during = if self.slots[slot].call == Some(Call::Settle) { "async_close" } else { "close" };
		let ev = self.exchange(slot, json!({"cmd": "go"}), during)?;
		self.close_event(slot, ev)
	}

	fn close_event(&mut self, slot: &str, ev: Ev) -> R<()> {
		let Ev::Done(v) = ev else { return Ok(()) };
		let call = self.slots.get_mut(slot).unwrap().call.take();
		match call {
			Some(Call::Close) => {
				let ok = v["ok"] == true;
				let keys = {
					let s = self.slots.get_mut(slot).unwrap();
					if s.phase == Phase::Closing {
						s.phase = Phase::Closed;
					}
					std::mem::take(&mut s.keys)
				};
				if ok {
					// acknowledged before a close() that returned Ok: must survive from now on
					for (k, val) in keys {
						if self.may.remove(&k).is_some() {
							self.must.insert(k, val);
						}
					}
				} else {
					self.drift("close_failed", json!(v["err"]));
				}
			}
			Some(Call::Settle) => {
				let s = self.slots.get_mut(slot).unwrap();
				s.asyncp = false;
				if s.handles == 0 {
					s.phase = Phase::None;
				}
			}
			_ => {}
		}
		Ok(())
	}

	/// Let whatever call the slot is parked in run to its end.
	fn finish_call(&mut self, slot: &str) -> R<()> {
		let mut n = 0;
		while self.slots[slot].parked.is_some() {
			n += 1;
			if n > 8 {
				self.drift("still_parked", json!(slot));
				break;
			}
			match self.slots[slot].call {
				Some(Call::Open) => self.open_go(slot)?,
				_ => self.close_go(slot)?,
			}
		}
		Ok(())
	}

	// ---- handles ------------------------------------------------------------------------------
	fn drop_handle(&mut self, slot: &str, ctx: &str) -> R<()> {
		let ev = self.exchange(slot, json!({"cmd": "drophandle", "ctx": ctx, "park": []}), "drop")?;
		if !matches!(ev, Ev::Done(_)) {
			self.drift("unexpected_gate", json!({"during": "drop"}));
			self.finish_call(slot)?;
		}
		let s = self.slots.get_mut(slot).unwrap();
		s.handles = s.handles.saturating_sub(1);
		let last = s.handles == 0;
		if ctx == "rt" {
			s.asyncp = true;
			if !last && s.phase == Phase::Live {
				s.clone_dropped = true;
			}
		}
		if last {
			if s.phase == Phase::Live {
				self.last_owner_end = if ctx == "rt" { "drop_rt" } else { "drop_nort" };
			}
			s.phase = Phase::None;
		}
		Ok(())
	}

	fn die(&mut self, proc_: &str, how: &str) {
		if let Some(mut w) = self.workers.remove(proc_) {
			if how == "exit" {
				w.exit(self.hang);
			} else {
				w.kill();
			}
		}
		let mut had_live = false;
		for s in self.slots.values_mut().filter(|s| s.proc_ == proc_) {
			had_live |= s.phase == Phase::Live;
			s.phase = Phase::None;
			s.handles = 0;
			s.clone_dropped = false;
			s.asyncp = false;
			s.parked = None;
			s.call = None;
			s.keys.clear();
		}
		if had_live {
			self.last_owner_end = if how == "exit" { "exit" } else { "kill" };
		}
		// a new process takes the place of the dead one when it is needed again
	}

	// ---- environment ------------------------------------------------------------------------
	fn newest(dir: &Path, ext: &str) -> Option<PathBuf> {
		let mut v: Vec<PathBuf> = std::fs::read_dir(dir)
			.ok()?
			.flatten()
			.map(|e| e.path())
			.filter(|p| p.is_file() && p.file_name().map(|n| n.to_string_lossy().ends_with(ext)).unwrap_or(false))
			.filter(|p| !p.file_name().unwrap().to_string_lossy().contains("999999"))
			.collect();
		v.sort();
		v.pop()
	}

	fn damage(&mut self, kind: &str) -> R<()> {
		if self.damage.is_some() {
			return Ok(());
		}
		// make sure there is something to damage: a helper process commits one key and closes
		// without flushing, so that the WAL holds a record and the manifest exists
		self.helper_ran = true;
		let mut w = Worker::spawn();
		let ok = (|| {
			let open = json!({"slot": 1, "cmd": "open", "path": self.db.to_string_lossy(), "foc": false, "strict": true, "park": []});
			if !w.send(&open) {
				return false;
			}
			let Ev::Done(v) = w.recv(self.hang) else { return false };
			if v["ok"] != true {
				return false;
			}
			let key = format!("c{}-dmg", self.case_idx);
			w.send(&json!({"slot": 1, "cmd": "commit", "key": key, "val": "d", "park": []}));
			let Ev::Done(_) = w.recv(self.hang) else { return false };
			w.send(&json!({"slot": 1, "cmd": "close", "park": []}));
			let Ev::Done(v) = w.recv(self.hang) else { return false };
			v["ok"] == true
		})();
		w.exit(self.hang);
		if !ok {
			self.drift("damage_helper_failed", json!(kind));
			return Ok(());
		}
		let target = match kind {
			"wal" => Self::newest(&self.db.join("wal"), ".wal"),
			_ => Self::newest(&self.db.join("manifest"), ""),
		};
		let Some(target) = target else {
			self.drift("nothing_to_damage", json!(kind));
			return Ok(());
		};
		let orig = std::fs::read(&target).unwrap_or_default();
		let mut bad = orig.clone();
		if kind == "wal" {
			if bad.len() < 13 {
				self.drift("nothing_to_damage", json!(kind));
				return Ok(());
			}
			bad[10] ^= 0xff;
			bad[11] ^= 0xff;
		} else {
			bad.truncate(orig.len().min(5));
			for b in bad.iter_mut() {
				*b ^= 0xa5;
			}
		}
		std::fs::write(&target, &bad).ok();
		self.damage = Some((kind.to_string(), target, orig));
		Ok(())
	}

	fn repair(&mut self) {
		if let Some((_, path, orig)) = self.damage.take() {
			let _ = std::fs::write(path, orig);
		}
	}

	// ---- one model step -----------------------------------------------------------------------
	fn step(&mut self, op: &Value, proc_of: &Value) -> R<()> {
		let name = op["op"].as_str().unwrap_or("");
		let who = op["who"].as_str().unwrap_or("").to_string();
		let arg = op["arg"].as_str().unwrap_or("");
		let pred = op["pred"].as_str().unwrap_or("");
		self.ops_seen.insert(format!("{name}:{pred}"));
		let is_slot_op = !matches!(name, "Die" | "Damage" | "Repair");
		if is_slot_op {
			let p = proc_of[&who].as_str().unwrap_or("p?").to_string();
			self.ensure_slot(&who, &p);
		}
		let parked = if is_slot_op { self.slots[&who].parked.clone() } else { None };
		match name {
			"OpenBegin" => {
				if parked.is_some() {
					self.drift("parked_before_command", json!(name));
					self.finish_call(&who)?;
				}
				if self.slots[&who].handles > 0 {
					self.drift("skipped", json!(name));
					return Ok(());
				}
				self.open_begin(&who, true)?;
				if self.slots[&who].parked.as_deref() != Some("lock_try") {
					self.drift("gate_order", json!({"op": name, "at": self.slots[&who].parked}));
				}
			}
			"LockTry" | "Recover" => {
				if parked.is_none() || self.slots[&who].call != Some(Call::Open) {
					self.drift("skipped", json!(name));
					return Ok(());
				}
				self.open_go(&who)?;
				let s = &self.slots[&who];
				let real = match (&s.parked, s.phase) {
					(Some(site), _) if site == "lock_acquired" => "Ok",
					(Some(_), _) => "Parked?",
					(None, Phase::Live) => "Ok",
					(None, _) => {
						if name == "LockTry" && !s.past_lock {
							"Refused"
						} else {
							"ErrDamage"
						}
					}
				};
				if real != pred {
					self.drift("prediction", json!({"op": name, "who": who, "pred": pred, "real": real}));
				}
			}
			"Commit" => {
				if parked.is_some() {
					self.drift("parked_before_command", json!(name));
					self.finish_call(&who)?;
				}
				if self.slots[&who].handles == 0 {
					self.drift("skipped", json!(name));
					return Ok(());
				}
				let ok = self.commit(&who, "commit")?;
				if ok != (pred == "Ok") {
					self.drift("prediction", json!({"op": name, "who": who, "pred": pred, "real": ok}));
				}
			}
			"Clone" => {
				if parked.is_some() {
					self.finish_call(&who)?;
				}
				if self.slots[&who].handles == 0 {
					self.drift("skipped", json!(name));
					return Ok(());
				}
				let ev = self.exchange(&who, json!({"cmd": "clone", "park": []}), "clone")?;
				if matches!(ev, Ev::Done(_)) {
					self.slots.get_mut(&who).unwrap().handles += 1;
				}
			}
			"DropHandle" => {
				if parked.is_some() {
					self.finish_call(&who)?;
				}
				if self.slots[&who].handles == 0 {
					self.drift("skipped", json!(name));
					return Ok(());
				}
				self.drop_handle(&who, arg)?;
			}
			"CloseBegin" => {
				if parked.is_some() {
					self.finish_call(&who)?;
				}
				if self.slots[&who].handles == 0 {
					self.drift("skipped", json!(name));
					return Ok(());
				}
				self.close_begin(&who, true)?;
				let real = if self.slots[&who].parked.is_some() { "Parked" } else { "Ok" };
				if real != pred {
					self.drift("prediction", json!({"op": name, "who": who, "pred": pred, "real": real}));
				}
			}
			"AsyncCloseBegin" => {
				if parked.is_some() {
					self.finish_call(&who)?;
				}
				self.settle_begin(&who, true)?;
				let real = if self.slots[&who].parked.is_some() { "Parked" } else { "Ok" };
				if real != pred {
					self.drift("prediction", json!({"op": name, "who": who, "pred": pred, "real": real}));
				}
			}
			"Unlock" | "CloseEnd" => {
				if parked.is_none() || self.slots[&who].call == Some(Call::Open) {
					self.drift("skipped", json!(name));
					return Ok(());
				}
				self.close_go(&who)?;
			}
			"RtRestart" => {
				if parked.is_some() {
					self.finish_call(&who)?;
				}
				let ev = self.exchange(&who, json!({"cmd": "rtrestart", "park": []}), "rtrestart")?;
				if !matches!(ev, Ev::Done(_)) {
					self.finish_call(&who)?;
				}
				let s = self.slots.get_mut(&who).unwrap();
				s.asyncp = false;
				s.handles = 0;
				s.phase = Phase::None;
			}
			"Die" => self.die(&who, arg),
			"Damage" => self.damage(arg)?,
			"Repair" => self.repair(),
			other => {
				self.drift("unknown_op", json!(other));
			}
		}
		Ok(())
	}

	// ---- probe observations of the state reached, and wind-down -------------------------------
	fn probe(&mut self, tag: &str, pred: Option<&str>) -> R<bool> {
		let name = format!("probe-{tag}");
		let proc_ = format!("pp-{tag}");
		self.ensure_slot(&name, &proc_);
		self.open_begin(&name, false)?;
		self.finish_call(&name)?;
		let live = self.slots[&name].phase == Phase::Live;
		if let Some(pred) = pred {
			let real = if live { "Ok" } else { "NotOk" };
			if (pred == "Ok") != live {
				self.drift("probe_prediction", json!({"pred": pred, "real": real}));
			}
		}
		Ok(live)
	}

	fn end_probe(&mut self, tag: &str) -> R<()> {
		let name = format!("probe-{tag}");
		if self.slots[&name].phase == Phase::Live {
			self.commit(&name, "probe_commit")?;
			self.check_data(&name)?;
			self.close_begin(&name, false)?;
			self.finish_call(&name)?;
		}
		if self.slots[&name].handles > 0 {
			self.drop_handle(&name, "rt")?;
			self.settle_begin(&name, false)?;
			self.finish_call(&name)?;
		}
		let proc_ = self.slots[&name].proc_.clone();
		self.die(&proc_, "exit");
		self.slots.remove(&name);
		Ok(())
	}

	fn finish(&mut self, case: &Value) -> R<()> {
		// (1) what a fresh process sees right after the last step
		let probed = self.probe("a", case["probePred"].as_str())?;
		// (2) every call that is still parked runs to its end (a close() that still writes after
		//     it gave the lock away does so now, under the eyes of the probe store)
		let names: Vec<String> = self.order.clone();
		for n in &names {
			if self.slots.contains_key(n) {
				self.finish_call(n)?;
			}
		}
		if probed {
			self.end_probe("a")?;
		} else {
			let proc_ = self.slots["probe-a"].proc_.clone();
			self.die(&proc_, "exit");
			self.slots.remove("probe-a");
		}
		// (3) wind down: stores still live are checked and closed, every handle dropped, every
		//     runtime driven
		for n in &names {
			let Some(s) = self.slots.get(n) else { continue };
			if n.starts_with("probe-") || !self.workers.contains_key(&s.proc_) {
				continue;
			}
			if s.asyncp {
				self.settle_begin(n, false)?;
				self.finish_call(n)?;
			}
			if self.slots[n].phase == Phase::Live {
				self.commit(n, "final_commit")?;
				self.check_data(n)?;
			}
			if self.slots[n].handles > 0 && matches!(self.slots[n].phase, Phase::Live) {
				self.close_begin(n, false)?;
				self.finish_call(n)?;
			}
			while self.slots[n].handles > 0 {
				self.drop_handle(n, "rt")?;
			}
			if self.slots[n].asyncp {
				self.settle_begin(n, false)?;
				self.finish_call(n)?;
			}
		}
		self.repair();
		// (4) now nothing is live, nothing in flight, nothing damaged: the directory opens again
		//     (the workers of the behaviour are still alive: a lock leaked inside them shows here)
		let ok = self.probe("z", None)?;
		if ok {
			self.end_probe("z")?;
		}
		Ok(())
	}

	fn lock_text_drift(&mut self, case: &Value) {
		// informational: the pid text in LOCK (model: lockText) - compared as drift only
		let Some(want) = case["lockText"].as_str() else { return };
		if self.helper_ran {
			return; // the damage helper (not in the model) wrote its own pid
		}
		let text = std::fs::read_to_string(self.db.join("LOCK")).unwrap_or_default();
		let got_empty = text.trim().is_empty();
		if want.is_empty() != got_empty {
			self.drift("lock_text", json!({"model": want, "real": text.trim()}));
		}
	}
}

type Groups = BTreeMap<String, (u64, Value)>;
static HANGS: std::sync::atomic::AtomicU64 = std::sync::atomic::AtomicU64::new(0);

fn run_case(idx: u64, case: &Value, hang: Duration, sum: &Mutex<Summary>, ops_seen: &Mutex<BTreeSet<String>>, groups: &Mutex<Groups>) {
	// "Confirm before alarm" for hang / crash: a stall of the machine (fsync under heavy foreign I/O,
	// an OOM kill) looks like a hang of the code under test. The behaviour is run again from scratch with
	// three times the patience; only what happens again is reported, the rest is counted as drift.
	let mut attempt = 0;
	let mut unconfirmed: Option<&'static str> = None;
	let (mut res, steps, mut drift, log, seen, foc) = loop {
		attempt += 1;
		let patience = if attempt == 1 { hang } else { hang * 3 };
		let root = verif_harness::scratch_dir("lock");
		let mut ex = Exec::new(idx, root.path(), patience);
		let proc_of = case["procOf"].clone();
		let ops = case["ops"].as_array().cloned().unwrap_or_default();
		let mut res: R<()> = Ok(());
		for op in &ops {
			res = ex.step(op, &proc_of);
			if res.is_err() {
				break;
			}
		}
		if res.is_ok() {
			ex.lock_text_drift(case);
			res = ex.finish(case);
		}
		let out = (res, ex.steps, std::mem::take(&mut ex.drift), std::mem::take(&mut ex.log), std::mem::take(&mut ex.ops_seen), ex.foc);
		drop(ex); // kills every worker
		if attempt == 1 {
			if let Err(v) = &out.0 {
				if v.kind == "hang" || v.kind == "crash" {
					unconfirmed = Some(v.kind);
					continue;
				}
			}
		}
		break out;
	};
	if let Some(kind) = unconfirmed {
		let again = matches!(&res, Err(v) if v.kind == kind);
		if !again {
			drift.push(json!({"what": "not_reproduced", "detail": kind, "step": 0}));
		}
	}
	if let Err(v) = &mut res {
		if v.kind == "hang" || v.kind == "crash" {
			v.sig["confirmed_by_rerun"] = json!(true);
		}
	}
	let mut s = sum.lock().unwrap();
	s.cases += 1;
	s.steps += steps;
	for d in drift {
		s.drift(json!({"case": idx, "drift": d}));
	}
	if let Err(v) = res {
		if v.kind == "hang" {
			HANGS.fetch_add(1, std::sync::atomic::Ordering::SeqCst);
		}
		let rec = json!({"kind": v.kind, "signature": v.sig, "what": v.what, "case": case, "case_idx": idx,
			"flush_on_close": foc, "log": log});
		let mut g = groups.lock().unwrap();
		let e = g.entry(v.sig.to_string()).or_insert_with(|| (0, rec.clone()));
		e.0 += 1;
		// keep the shortest behaviour as the example of its group
		if case["ops"].as_array().map(|a| a.len()).unwrap_or(0) < e.1["case"]["ops"].as_array().map(|a| a.len()).unwrap_or(0) {
			e.1 = rec.clone();
		}
		drop(g);
		s.violation(rec);
	} else if idx % 997 == 0 {
		s.sample(json!({"case": case, "log_tail": log.iter().rev().take(6).collect::<Vec<_>>()}));
	}
	drop(s);
	ops_seen.lock().unwrap().extend(seen);
}

// =====================================================================================
// hook-free concurrency stress: real races, no gates
// =====================================================================================
fn race(rounds: u64, seed: u64, hang: Duration, sum: &mut Summary) {
	use rand::{Rng, SeedableRng};
	let mut rng = rand::rngs::StdRng::seed_from_u64(seed);
	for round in 0..rounds {
		let nproc = rng.random_range(2..=4usize);
		let per = rng.random_range(1..=3u64);
		let pre = rng.random_bool(0.5);
		let mut viol = race_round(round, nproc, per, pre, hang, sum);
		// confirm before alarm: a hang must happen again with three times the patience
		if matches!(&viol, Some(v) if v["kind"] == "hang") {
			let again = race_round(round, nproc, per, pre, hang * 3, sum);
			if !matches!(&again, Some(v) if v["kind"] == "hang") {
				sum.drift(json!({"what": "not_reproduced", "detail": "hang", "round": round}));
			}
			viol = again;
		}
		sum.cases += 1;
		if let Some(mut v) = viol {
			v["race"] = json!({"round": round, "seed": seed, "nproc": nproc, "per": per, "pre": pre});
			sum.violation(v);
			if sum.violation_count > 5 {
				break;
			}
		}
	}
}


fn race_round(round: u64, nproc: usize, per: u64, pre: bool, hang: Duration, sum: &mut Summary) -> Option<Value> {
	let root = verif_harness::scratch_dir("lockrace");
	let db = root.path().join("db");
	let mut viol: Option<Value> = None;
	let mut must: BTreeMap<String, String> = BTreeMap::new();
	let open_msg = |slot: u64| json!({"slot": slot, "cmd": "open", "path": db.to_string_lossy(), "foc": true, "strict": true, "park": []});
	// optionally a first generation that leaves data behind
	if pre {
		let mut w = Worker::spawn();
		w.send(&open_msg(1));
		if let Ev::Done(v) = w.recv(hang) {
			if v["ok"] == true {
				for i in 0..20 {
					let k = format!("r{round}-pre-{i}");
					w.send(&json!({"slot": 1, "cmd": "commit", "key": k, "val": "p".repeat(500), "park": []}));
					if let Ev::Done(v) = w.recv(hang) {
						if v["ok"] == true {
							must.insert(k, "p".repeat(500));
						}
					}
				}
				w.send(&json!({"slot": 1, "cmd": "close", "park": []}));
				let _ = w.recv(hang);
			}
		}
		w.exit(hang);
	}
	// all slots of all processes call build() at the same moment
	let mut ws: Vec<Worker> = (0..nproc).map(|_| Worker::spawn()).collect();
	for w in ws.iter_mut() {
		for s in 1..=per {
			w.send(&json!({"slot": s, "cmd": "ping", "park": []}));
			let _ = w.recv(hang);
		}
	}
	for w in ws.iter_mut() {
		for s in 1..=per {
			w.send(&open_msg(s));
		}
	}
	let mut winners: Vec<(usize, u64)> = Vec::new();
	for (wi, w) in ws.iter_mut().enumerate() {
		for _ in 1..=per {
			match w.rx.recv_timeout(hang) {
				Ok(v) => {
					if v["done"]["ok"] == true {
						winners.push((wi, v["slot"].as_u64().unwrap_or(0)));
					} else if v["done"].get("panic").is_some() {
						viol = Some(json!({"kind": "panic", "signature": {"kind": "panic", "during": "race_open"}, "what": v["done"]["panic"]}));
					}
				}
				Err(_) => viol = Some(json!({"kind": "hang", "signature": {"kind": "hang", "during": "race_open"}, "what": "no answer to concurrent build()"})),
			}
		}
	}
	sum.steps += nproc as u64 * per;
	if viol.is_none() && winners.len() > 1 {
		viol = Some(json!({"kind": "second_open_succeeded", "signature": {"kind": "second_open_succeeded", "holder": "intact", "race": true},
			"what": format!("{} concurrent build() calls returned Ok: {:?}", winners.len(), winners)}));
	}
	if viol.is_none() && winners.is_empty() {
		sum.drift(json!({"what": "race_no_winner", "round": round}));
	}
	// the winner works, sees the old data, closes while a second process hammers build()
	if viol.is_none() {
		if let Some(&(wi, slot)) = winners.first() {
			let keys: Vec<String> = must.keys().cloned().collect();
			ws[wi].send(&json!({"slot": slot, "cmd": "read", "keys": keys, "park": []}));
			if let Ev::Done(v) = ws[wi].recv(hang) {
				for (k, want) in &must {
					if v["vals"][k].as_str() != Some(want.as_str()) {
						viol = Some(json!({"kind": "data_lost", "signature": {"kind": "data_lost", "race": true}, "what": format!("{k} missing after concurrent build()")}));
						break;
					}
				}
			}
			for i in 0..30 {
				let k = format!("r{round}-w-{i}");
				let val = "w".repeat(2000);
				ws[wi].send(&json!({"slot": slot, "cmd": "commit", "key": k, "val": val, "park": []}));
				match ws[wi].recv(hang) {
					Ev::Done(v) if v["ok"] == true => {
						must.insert(k, val);
					}
					Ev::Done(v) => {
						viol = Some(json!({"kind": "live_store_not_functional", "signature": {"kind": "live_store_not_functional", "holder": "intact", "race": true},
							"what": format!("commit failed on the winner: {}", v["err"])}));
						break;
					}
					_ => {}
				}
			}
			// close() races with build() of another process
			let other = (wi + 1) % ws.len();
			ws[wi].send(&json!({"slot": slot, "cmd": "close", "park": []}));
			let mut second: Option<u64> = None;
			let t0 = std::time::Instant::now();
			let mut attempts = 0u64;
			let spare = per + 5;
			while t0.elapsed() < hang {
				attempts += 1;
				ws[other].send(&open_msg(spare));
				match ws[other].recv(hang) {
					Ev::Done(v) if v["ok"] == true => {
						second = Some(spare);
						break;
					}
					Ev::Done(_) => {}
					_ => break,
				}
			}
			sum.steps += attempts;
			let closed = ws[wi].recv(hang);
			if !matches!(closed, Ev::Done(_)) {
				viol = Some(json!({"kind": "hang", "signature": {"kind": "hang", "during": "race_close"}, "what": "close() did not return"}));
			}
			match second {
				None if viol.is_none() => {
					viol = Some(json!({"kind": "reopen_refused", "signature": {"kind": "reopen_refused", "release": "close", "race": true},
						"what": format!("{attempts} build() attempts during and after close() all failed")}));
				}
				Some(s2) if viol.is_none() => {
					// the new store sees everything, works, closes; a third generation sees everything
					let w = &mut ws[other];
					for i in 0..5 {
						let k = format!("r{round}-n-{i}");
						w.send(&json!({"slot": s2, "cmd": "commit", "key": k, "val": "n", "park": []}));
						if let Ev::Done(v) = w.recv(hang) {
							if v["ok"] == true {
								must.insert(k, "n".into());
							} else {
								viol = Some(json!({"kind": "live_store_not_functional", "signature": {"kind": "live_store_not_functional", "holder": "intact", "race": true},
									"what": format!("commit failed on the store opened during close(): {}", v["err"])}));
							}
						}
					}
					w.send(&json!({"slot": s2, "cmd": "close", "park": []}));
					let _ = w.recv(hang);
					let mut w3 = Worker::spawn();
					w3.send(&open_msg(1));
					match w3.recv(hang) {
						Ev::Done(v) if v["ok"] == true => {
							let keys: Vec<String> = must.keys().cloned().collect();
							w3.send(&json!({"slot": 1, "cmd": "read", "keys": keys, "park": []}));
							if let Ev::Done(v) = w3.recv(hang) {
								for (k, want) in &must {
									if v["vals"][k].as_str() != Some(want.as_str()) && viol.is_none() {
										viol = Some(json!({"kind": "data_lost", "signature": {"kind": "data_lost", "race": true},
											"what": format!("{k} missing after close() raced with build()")}));
									}
								}
							}
							w3.send(&json!({"slot": 1, "cmd": "close", "park": []}));
							let _ = w3.recv(hang);
						}
						Ev::Done(v) if viol.is_none() => {
							viol = Some(json!({"kind": "reopen_refused", "signature": {"kind": "reopen_refused", "release": "close", "race": true},
								"what": format!("third generation cannot open: {}", v["err"])}));
						}
						_ => {}
					}
					w3.exit(hang);
				}
				_ => {}
			}
		}
	}
	viol
}

// =====================================================================================
fn main() {
	let args: Vec<String> = std::env::args().collect();
	if args.iter().any(|a| a == "--worker") {
		worker::main();
		return;
	}
	if args.len() < 2 {
		eprintln!("usage: lock_run <file> [--threads N] [--max-cases N] | --race <rounds> [--seed S]");
		std::process::exit(2);
	}
	let opt = |name: &str| args.iter().position(|a| a == name).and_then(|i| args.get(i + 1)).and_then(|v| v.parse::<u64>().ok());
	let hang = Duration::from_millis(opt("--hang-ms").unwrap_or(20_000));
	let mut sum = Summary::new("lock_run");
	if let Some(rounds) = opt("--race") {
		race(rounds, opt("--seed").unwrap_or(1), hang, &mut sum);
		sum.extra.insert("mode".into(), json!("race"));
		sum.print();
		return;
	}
	let threads = opt("--threads").unwrap_or(8).max(1) as usize;
	let max_cases = opt("--max-cases").unwrap_or(u64::MAX);
	let max_viol = opt("--max-violations").unwrap_or(u64::MAX);
	let f = std::fs::File::open(&args[1]).unwrap_or_else(|e| {
		eprintln!("cannot open {}: {e}", args[1]);
		std::process::exit(2)
	});
	let mut cases: Vec<Value> = Vec::new();
	for line in BufReader::new(f).lines() {
		let line = line.unwrap();
		let text: String = if line.starts_with("\"REPLAY ") {
			let s: String = serde_json::from_str(&line).unwrap();
			s["REPLAY ".len()..].to_string()
		} else if line.starts_with('{') {
			line
		} else {
			continue;
		};
		match serde_json::from_str(&text) {
			Ok(v) => cases.push(v),
			Err(e) => {
				eprintln!("bad behaviour line: {e}");
				std::process::exit(2);
			}
		}
	}
	// random behaviours from `tlc -simulate` arrive as every prefix of every behaviour: keep the longest
	if args.iter().any(|a| a == "--longest-only") {
		let mut strict_prefixes: HashSet<u64> = HashSet::new();
		let mut full: Vec<u64> = Vec::with_capacity(cases.len());
		for c in &cases {
			let mut h = DefaultHasher::new();
			let ops = c["ops"].as_array().unwrap();
			let mut last = 0u64;
			for (i, op) in ops.iter().enumerate() {
				op.to_string().hash(&mut h);
				last = h.clone().finish();
				if i + 1 < ops.len() {
					strict_prefixes.insert(last);
				}
			}
			full.push(last);
		}
		let mut seen: HashSet<u64> = HashSet::new();
		let mut it = full.into_iter();
		cases.retain(|_| {
			let f = it.next().unwrap();
			!strict_prefixes.contains(&f) && seen.insert(f)
		});
	}
	let total = cases.len() as u64;
	// an even sample when there are more behaviours than the budget allows
	let stride = if total > max_cases { total.div_ceil(max_cases) } else { 1 };
	let picked: Vec<(u64, Value)> = cases
		.into_iter()
		.enumerate()
		.filter(|(i, _)| *i as u64 % stride == 0)
		.map(|(i, c)| (c["idx"].as_u64().unwrap_or(i as u64), c))
		.collect();
	let queue = Arc::new(Mutex::new(picked.into_iter()));
	let sum = Arc::new(Mutex::new(sum));
	let seen = Arc::new(Mutex::new(BTreeSet::new()));
	let groups: Arc<Mutex<Groups>> = Arc::new(Mutex::new(BTreeMap::new()));
	let mut hs = Vec::new();
	for _ in 0..threads {
		let (queue, sum, seen, groups) = (queue.clone(), sum.clone(), seen.clone(), groups.clone());
		hs.push(std::thread::spawn(move || loop {
			let next = queue.lock().unwrap().next();
			let Some((idx, case)) = next else { break };
			// a hang costs a full timeout: after a few of them the verdict is clear
			if sum.lock().unwrap().violation_count > max_viol || HANGS.load(std::sync::atomic::Ordering::SeqCst) >= 3 {
				break;
			}
			run_case(idx, &case, hang, &sum, &seen, &groups);
		}));
	}
	for h in hs {
		let _ = h.join();
	}
	let mut sum = Arc::try_unwrap(sum).ok().unwrap().into_inner().unwrap();
	let seen = seen.lock().unwrap();
	let groups = groups.lock().unwrap();
	sum.extra.insert(
		"violation_groups".into(),
		json!(groups.values().map(|(n, ex)| json!({"count": n, "signature": ex["signature"], "example": ex})).collect::<Vec<_>>()),
	);
	sum.extra.insert("behaviours_exported".into(), json!(total));
	sum.extra.insert("stride".into(), json!(stride));
	sum.extra.insert("distinct_op_prediction_pairs".into(), json!(seen.len()));
	sum.extra.insert("op_prediction_pairs".into(), json!(seen.iter().cloned().collect::<Vec<_>>()));
	sum.print();
}
