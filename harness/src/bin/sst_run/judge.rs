//! Builds real table files from model tables and judges what the real code answers.
//!
//! Decides (violation): a real answer contradicts what the property prescribes (the
//! expectations exported by TLC are computed from the sorted list of entries alone).
//! Informational (drift): the real index separators / metadata differ from the spec's.

use std::collections::BTreeMap;
use std::path::Path;

use serde_json::{json, Value};
use surrealkv::verif::sst::{self, SstBound, SstEntry, SstIter, SstKey, SstPartition, SstTable};

use crate::model::*;

#[derive(Default)]
pub struct Out {
	pub violations: Vec<Value>,
	pub drifts: Vec<Value>,
	pub counters: BTreeMap<&'static str, u64>,
}

impl Out {
	pub fn count(&mut self, k: &'static str, n: u64) {
		*self.counters.entry(k).or_insert(0) += n;
	}
	pub fn violation(&mut self, kind: &str, what: String, detail: Value) {
		self.violations.push(json!({"kind": kind, "what": what, "detail": detail}));
	}
	pub fn drift(&mut self, kind: &str, detail: Value) {
		self.drifts.push(json!({"kind": kind, "detail": detail}));
	}
}

pub struct Built {
	pub ents: Vec<SstEntry>,
	pub table: SstTable,
	pub layout: Vec<SstPartition>,
	pub blocks: Vec<Vec<usize>>,
	pub parts: Vec<Vec<usize>>,
	pub real: Real,
}

fn hexs(b: &[u8]) -> String {
	verif_harness::keys::hex(b)
}

pub fn show_key(k: &SstKey) -> String {
	format!("{}@{}/k{}/t{}", hexs(&k.user_key), k.seq, k.kind, k.ts)
}

fn show_entry(e: &Option<SstEntry>) -> String {
	match e {
		None => "NONE".into(),
		Some(e) => format!("{} -> {} bytes", show_key(&e.key), e.value.len()),
	}
}

/// Write the model table with the real writer and open it (twice: one handle for the
/// layout projection, which reads every block, one that stays cold for the probes).
pub fn build(t: &TableM, mut real: Real, dir: &Path, id: u64) -> Result<Built, (String, String)> {
	let ents = materialise(t, &mut real);
	let o = real.options();
	let (table, lt) = if real.in_mem {
		let bytes = sst::sst_build_mem(id, &o, &ents).map_err(|e| ("build_error".to_string(), e))?;
		let a = sst::sst_open_mem(bytes.clone(), id, &o).map_err(|e| ("open_error".to_string(), e))?;
		let b = sst::sst_open_mem(bytes, id, &o).map_err(|e| ("open_error".to_string(), e))?;
		(a, b)
	} else {
		let path = dir.join(format!("{id:020}.sst"));
		let r = sst::sst_build(&path, id, &o, &ents).map_err(|e| ("build_error".to_string(), e)).and_then(|_| {
			let a = sst::sst_open(&path, id, &o).map_err(|e| ("open_error".to_string(), e))?;
			let b = sst::sst_open(&path, id, &o).map_err(|e| ("open_error".to_string(), e))?;
			Ok((a, b))
		});
		let _ = std::fs::remove_file(&path);
		r?
	};
	let layout = lt.layout().map_err(|e| ("layout_error".to_string(), e))?;
	let (blocks, parts) = real_layout(&layout);
	Ok(Built {
		ents,
		table,
		layout,
		blocks,
		parts,
		real,
	})
}

/// Find an index_partition_size under which the real writer cuts the partitions where
/// the model did (block cuts are already steered by padding). Falls back to the closest.
pub fn steer_partitions(t: &TableM, real: &Real, cands: &[usize]) -> Real {
	let mut best = (usize::MAX, real.clone());
	for &p in cands {
		let mut r = real.clone();
		r.part_size = p;
		r.in_mem = true;
		let mut rr = r.clone();
		let ents = materialise(t, &mut rr);
		let o = rr.options();
		let Ok(bytes) = sst::sst_build_mem(1, &o, &ents) else {
			continue;
		};
		let Ok(tab) = sst::sst_open_mem(bytes, 1, &o) else {
			continue;
		};
		let Ok(l) = tab.layout() else {
			continue;
		};
		let (_, parts) = real_layout(&l);
		let d = if parts == t.parts {
			0
		} else {
			1 + parts.len().abs_diff(t.parts.len())
		};
		if d < best.0 {
			let mut keep = real.clone();
			keep.part_size = p;
			best = (d, keep);
			if d == 0 {
				break;
			}
		}
	}
	best.1
}

fn check_entry(got: &Option<SstEntry>, want: usize, ents: &[SstEntry]) -> Result<(), String> {
	match (got, want) {
		(None, 0) => Ok(()),
		(Some(g), w) if w > 0 => {
			let e = &ents[w - 1];
			if g.key != e.key {
				Err(format!("want entry #{w} {} got {}", show_key(&e.key), show_key(&g.key)))
			} else if g.value != e.value {
				Err(format!(
					"entry #{w} {}: value differs (want {} bytes, got {} bytes)",
					show_key(&e.key),
					e.value.len(),
					g.value.len()
				))
			} else {
				Ok(())
			}
		}
		(None, w) => Err(format!("want entry #{w} {} got nothing", show_key(&ents[w - 1].key))),
		(Some(_), _) => Err(format!("want nothing got {}", show_entry(got))),
	}
}

fn seek_key(b: &Built, t: &TableM, k: &[u8], s: u64, salt: usize) -> SstKey {
	SstKey {
		user_key: map_key(&b.real, k),
		seq: map_seq(&b.real, t.maxver, s),
		// kind and timestamp of a seek key take no part in the ordering
		kind: if salt % 2 == 0 { 24 } else { 2 },
		ts: if salt % 3 == 0 { u64::MAX } else { salt as u64 },
	}
}

fn cur(it: &SstIter<'_>) -> Result<Option<SstEntry>, String> {
	it.entry()
}

/// Layout facts of the realised table (coverage counters) and conformance of the
/// separators / metadata with the spec (drift only).
pub fn judge_structure(b: &Built, t: &TableM, out: &mut Out) {
	out.count("real_tables", 1);
	let exact = b.blocks == t.blocks && b.parts == t.parts;
	if exact {
		out.count("layout_exact", 1);
	}
	if b.blocks.len() > 1 {
		out.count("tables_multi_block", 1);
	}
	if b.parts.len() > 1 {
		out.count("tables_multi_partition", 1);
	}
	if b.real.filter {
		out.count("tables_filter_on", 1);
	}
	if b.real.snappy {
		out.count("tables_snappy", 1);
	}
	if b.blocks.iter().any(|x| x.len() > b.real.restart) {
		out.count("tables_block_with_several_restart_points", 1);
	}
	// a user key whose versions lie in different blocks / partitions
	let mut blk_of = vec![0usize; b.ents.len() + 1];
	let mut part_of = vec![0usize; b.ents.len() + 1];
	for (pi, p) in b.parts.iter().enumerate() {
		for &bn in p {
			for &e in &b.blocks[bn - 1] {
				if e <= b.ents.len() {
					blk_of[e] = bn;
					part_of[e] = pi;
				}
			}
		}
	}
	let mut sb = false;
	let mut sp = false;
	for i in 1..b.ents.len() {
		if b.ents[i - 1].key.user_key == b.ents[i].key.user_key {
			sb |= blk_of[i] != blk_of[i + 1];
			sp |= part_of[i] != part_of[i + 1];
		}
	}
	if sb {
		out.count("tables_key_versions_span_blocks", 1);
	}
	if sp {
		out.count("tables_key_versions_span_partitions", 1);
	}
	// number of entries must match
	let total: usize = b.layout.iter().map(|p| p.entries.iter().map(|e| e.keys.len()).sum::<usize>()).sum();
	if total != b.ents.len() {
		out.drift("layout_entry_count", json!({"want": b.ents.len(), "got": total}));
	}
	// mechanism: every index key bounds its block from above and lies below the next block
	let flat: Vec<&surrealkv::verif::sst::SstIndexEntry> = b.layout.iter().flat_map(|p| p.entries.iter()).collect();
	for (i, ie) in flat.iter().enumerate() {
		let sep = (&ie.separator.user_key[..], ie.separator.seq);
		if let Some(last) = ie.keys.last() {
			if ikey_less(sep, (&last.user_key[..], last.seq)) {
				out.drift("mech_separator_below_block_last", json!({"sep": show_key(&ie.separator), "last": show_key(last)}));
			}
		}
		if let Some(nx) = flat.get(i + 1).and_then(|n| n.keys.first()) {
			if !ikey_less(sep, (&nx.user_key[..], nx.seq)) {
				out.drift("mech_separator_not_below_next_block", json!({"sep": show_key(&ie.separator), "next": show_key(nx)}));
			}
		}
	}
	for p in &b.layout {
		if let Some(l) = p.entries.last() {
			if (l.separator.user_key.as_slice(), l.separator.seq) != (p.top_separator.user_key.as_slice(), p.top_separator.seq) {
				out.drift("top_key_not_last_separator", json!({"top": show_key(&p.top_separator), "last": show_key(&l.separator)}));
			}
		}
	}
	// conformance with the spec's separators (same layout only)
	if exact && !t.seps.is_empty() {
		let nflat = flat.len();
		let mut i = 0;
		for (pi, p) in t.seps.iter().enumerate() {
			for (j, s) in p.iter().enumerate() {
				i += 1;
				// with a prefix the successor of the last key is taken inside the prefix
				if b.real.prefix != 0 && i == nflat {
					continue;
				}
				let want = (map_key(&b.real, &s.uk), map_seq(&b.real, t.maxver, s.ver));
				let got = &b.layout[pi].entries[j].separator;
				if (got.user_key.clone(), got.seq) != want {
					out.drift(
						"separator_differs_from_spec",
						json!({"want": format!("{}@{}", hexs(&want.0), want.1), "got": show_key(got)}),
					);
				}
			}
		}
		out.count("separators_compared", i as u64);
	}
	// metadata
	let m = b.table.meta();
	let first = &b.ents[0].key;
	let last = &b.ents[b.ents.len() - 1].key;
	let (lo, hi) = b.ents.iter().fold((u64::MAX, 0u64), |a, e| (a.0.min(e.key.seq), a.1.max(e.key.seq)));
	match (&m.smallest_point, &m.largest_point) {
		(Some(s), Some(l)) => {
			if s.user_key > first.user_key || l.user_key < last.user_key {
				out.violation(
					"key_range_unsound",
					format!(
						"metadata key range [{} .. {}] does not enclose the entries [{} .. {}]",
						hexs(&s.user_key),
						hexs(&l.user_key),
						hexs(&first.user_key),
						hexs(&last.user_key)
					),
					json!({}),
				);
			} else if s != first || l != last {
				out.drift("meta_points_not_first_last", json!({"smallest": show_key(s), "largest": show_key(l)}));
			}
		}
		_ => out.drift("meta_points_missing", json!({})),
	}
	if m.seqnos.0 > lo || m.seqnos.1 < hi {
		out.violation(
			"seq_range_unsound",
			format!("metadata seqnos {:?} do not enclose the entries' sequence numbers [{lo}, {hi}]", m.seqnos),
			json!({}),
		);
	} else if m.seqnos != (lo, hi) {
		out.drift("meta_seqnos_not_tight", json!({"want": [lo, hi], "got": [m.seqnos.0, m.seqnos.1]}));
	}
	if m.num_entries != b.ents.len() as u64 {
		out.drift("meta_num_entries", json!({"want": b.ents.len(), "got": m.num_entries}));
	}
	if m.has_filter != b.real.filter {
		out.drift("filter_presence", json!({"want": b.real.filter, "got": m.has_filter}));
	}
}

/// Scan from the current position with `step` until the cursor is not valid; at most `cap` entries.
fn collect(
	it: &mut SstIter<'_>,
	mut ok: bool,
	forward: bool,
	cap: usize,
) -> Result<Vec<Option<SstEntry>>, String> {
	let mut v = Vec::new();
	while ok {
		if it.valid() != ok {
			return Err("valid() disagrees with the returned flag".into());
		}
		v.push(cur(it)?);
		if v.len() > cap {
			return Err(format!("cursor yields more than {cap} entries"));
		}
		ok = if forward { it.next()? } else { it.prev()? };
	}
	if it.valid() {
		return Err("cursor reports valid() after returning false".into());
	}
	Ok(v)
}

fn check_list(got: &[Option<SstEntry>], want: &[usize], ents: &[SstEntry]) -> Result<(), String> {
	if got.len() != want.len() {
		return Err(format!(
			"want {} entries {:?}, got {}: [{}]",
			want.len(),
			want,
			got.len(),
			got.iter().map(show_entry).collect::<Vec<_>>().join(", ")
		));
	}
	for (g, &w) in got.iter().zip(want) {
		check_entry(g, w, ents).map_err(|e| format!("in scan (want {:?}): {e}", want))?;
	}
	Ok(())
}

/// All probe observations of a finished table.
pub fn judge_table(b: &Built, t: &TableM, p: &Probes, out: &mut Out) {
	let n = b.ents.len();
	let rot = b.real.rot as usize;
	// (d) point lookups
	'gets: for (ti, k) in p.t.iter().enumerate() {
		let rk = map_key(&b.real, k);
		for (si, &s) in p.s.iter().enumerate() {
			let want = p.gets[ti][si];
			out.count("gets", 1);
			let got = match b.table.get(&rk, map_seq(&b.real, t.maxver, s)) {
				Ok(g) => g,
				Err(e) => {
					out.violation("get_error", format!("get({}, {s}) failed: {e}", hexs(&rk)), json!({"key": k, "snap": s}));
					break 'gets;
				}
			};
			if let Err(e) = check_entry(&got, want, &b.ents) {
				let kind = if want != 0 && got.is_none() {
					"get_hides_present_entry"
				} else if want == 0 {
					"get_returns_entry_for_absent"
				} else {
					"get_wrong_entry"
				};
				out.violation(kind, format!("get({}, snap {s}): {e}", hexs(&rk)), json!({"key": k, "snap": s, "want": want}));
				break 'gets;
			}
		}
	}
	// (e) key-range shortcut never hides a present key
	for e in &b.ents {
		out.count("range_predicates", 1);
		if !b.table.is_key_in_key_range(&e.key.user_key, e.key.seq) {
			out.violation(
				"key_range_shortcut_hides_present_key",
				format!("is_key_in_key_range({}) = false for a stored key", hexs(&e.key.user_key)),
				json!({}),
			);
			break;
		}
	}
	// (f) full scans, both ways, both entry points
	let all: Vec<usize> = (1..=n).collect();
	let rev: Vec<usize> = (1..=n).rev().collect();
	for variant in 0..4usize {
		out.count("full_scans", 1);
		let forward = variant % 2 == 0;
		let auto = variant / 2 == 1; // positioned by the first next()/prev() call
		let r = (|| -> Result<(), String> {
			let mut it = b.table.iter(&SstBound::Unbounded, &SstBound::Unbounded, b.real.custom_cmp ^ (variant == 1))?;
			let ok = match (forward, auto) {
				(true, false) => it.seek_first()?,
				(true, true) => it.next()?,
				(false, false) => it.seek_last()?,
				(false, true) => it.prev()?,
			};
			let got = collect(&mut it, ok, forward, n + 2)?;
			check_list(&got, if forward { &all } else { &rev }, &b.ents)
		})();
		if let Err(e) = r {
			out.violation(
				if forward { "forward_scan_wrong" } else { "backward_scan_wrong" },
				format!("{} scan{}: {e}", if forward { "forward" } else { "backward" }, if auto { " (auto-positioned)" } else { "" }),
				json!({"auto": auto}),
			);
			break;
		}
	}
	// (g) seek, then one step in either direction
	'seeks: for (ti, k) in p.t.iter().enumerate() {
		for (si, &s) in p.s.iter().enumerate() {
			let want = p.seeks[ti][si];
			out.count("seeks", 1);
			let follow = (ti + si + rot) % 3;
			let r = (|| -> Result<(), String> {
				let mut it = b.table.iter(&SstBound::Unbounded, &SstBound::Unbounded, b.real.custom_cmp)?;
				let ok = it.seek(&seek_key(b, t, k, s, ti + si + rot))?;
				if ok != (want != 0) || it.valid() != ok {
					return Err(format!("seek returned {ok}, valid() {}, want entry #{want}", it.valid()));
				}
				check_entry(&cur(&it)?, want, &b.ents)?;
				if want != 0 && follow == 0 {
					let w2 = if want < n { want + 1 } else { 0 };
					let ok = it.next()?;
					if ok != (w2 != 0) {
						return Err(format!("next after seek returned {ok}, want entry #{w2}"));
					}
					check_entry(&cur(&it)?, w2, &b.ents).map_err(|e| format!("next after seek: {e}"))?;
				} else if want != 0 && follow == 1 {
					let w2 = want - 1;
					let ok = it.prev()?;
					if ok != (w2 != 0) {
						return Err(format!("prev after seek returned {ok}, want entry #{w2}"));
					}
					check_entry(&cur(&it)?, w2, &b.ents).map_err(|e| format!("prev after seek: {e}"))?;
				}
				Ok(())
			})();
			if let Err(e) = r {
				out.violation(
					"seek_wrong",
					format!("seek({}, {s}): {e}", hexs(&map_key(&b.real, k))),
					json!({"key": k, "snap": s, "want": want}),
				);
				break 'seeks;
			}
		}
	}
	// (h) range shortcuts and range-bounded scans
	'ranges: for (li, lo) in p.b.iter().enumerate() {
		for (hi_i, hi) in p.b.iter().enumerate() {
			let (first, last) = p.ranges[li][hi_i];
			let rlo = map_bound(&b.real, lo);
			let rhi = map_bound(&b.real, hi);
			out.count("range_predicates", 1);
			if first != 0 {
				let before = b.table.is_before_range(&rlo, &rhi);
				let after = b.table.is_after_range(&rlo, &rhi);
				let over = b.table.overlaps_with_range(&rlo, &rhi);
				if before || after || !over {
					out.violation(
						"range_shortcut_excludes_table_with_key_in_range",
						format!(
							"range {:?}..{:?} holds entries #{first}..#{last} but is_before={before} is_after={after} overlaps={over}",
							lo, hi
						),
						json!({"lo": format!("{lo:?}"), "hi": format!("{hi:?}")}),
					);
					break 'ranges;
				}
			}
			let want: Vec<usize> = if first == 0 { vec![] } else { (first..=last).collect() };
			let wrev: Vec<usize> = want.iter().rev().cloned().collect();
			// both directions on the steered and the tiny realisation, alternating on the natural ones
			let both = b.real.steer || b.real.part_size == 1;
			for forward in [true, false] {
				if !both && ((li + hi_i + rot) % 2 == 0) != forward {
					continue;
				}
				out.count("range_scans", 1);
				let r = (|| -> Result<(), String> {
					let mut it = b.table.iter(&rlo, &rhi, b.real.custom_cmp)?;
					let ok = if forward { it.seek_first()? } else { it.seek_last()? };
					let got = collect(&mut it, ok, forward, n + 2)?;
					check_list(&got, if forward { &want } else { &wrev }, &b.ents)
				})();
				if let Err(e) = r {
					out.violation(
						"range_scan_wrong",
						format!("{} scan of {:?}..{:?}: {e}", if forward { "forward" } else { "backward" }, lo, hi),
						json!({"lo": format!("{lo:?}"), "hi": format!("{hi:?}"), "forward": forward}),
					);
					break 'ranges;
				}
			}
		}
	}
}

/// One cursor program.
pub fn judge_prog(b: &Built, t: &TableM, prog: &Prog, out: &mut Out) {
	out.count("programs", 1);
	let rlo = map_bound(&b.real, &prog.lo);
	let rhi = map_bound(&b.real, &prog.hi);
	let mut it = match b.table.iter(&rlo, &rhi, b.real.custom_cmp) {
		Ok(it) => it,
		Err(e) => {
			out.violation("iter_error", format!("cannot create iterator: {e}"), json!({}));
			return;
		}
	};
	for (i, op) in prog.ops.iter().enumerate() {
		out.count("program_ops", 1);
		let r = match op.op {
			0 => it.seek_first(),
			1 => it.seek_last(),
			2 => it.next(),
			3 => it.prev(),
			_ => it.seek(&seek_key(b, t, &op.k, op.s, i + b.real.rot as usize)),
		};
		let name = OP_NAMES[op.op as usize];
		let res = (|| -> Result<(), String> {
			let ok = r.clone()?;
			if ok != (op.want != 0) || it.valid() != ok {
				return Err(format!("returned {ok}, valid() {}, want entry #{}", it.valid(), op.want));
			}
			check_entry(&cur(&it)?, op.want, &b.ents)
		})();
		if let Err(e) = res {
			out.violation(
				"cursor_wrong",
				format!("op {i} {name}({}, {}) under {:?}..{:?}: {e}", hexs(&op.k), op.s, prog.lo, prog.hi),
				json!({"step": i, "op": name}),
			);
			return;
		}
	}
}
