//! SEPCASE lines (spec/sst/SeparatorMC.tla) against the real comparators.
//!
//! Decides: `a <= sep(a,b) < b` and `k <= succ(k)` on the *real* outputs, under the
//! definitional orders (bytewise; user key ascending + version descending).
//! Drift: the real output differs from the spec's transcription; the real compare()
//! differs from the definitional order.

use serde_json::{json, Value};
use surrealkv::verif::sst::{self, SstKey};

use crate::judge::{show_key, Out};
use crate::model::*;

fn ver_real(ts: bool, maxver: u64, v: u64) -> u64 {
	if v >= maxver {
		if ts {
			u64::MAX
		} else {
			SEQ_MAX
		}
	} else {
		v
	}
}

fn ikey(ts: bool, maxver: u64, uk: &[u8], v: u64, salt: u64) -> SstKey {
	let r = ver_real(ts, maxver, v);
	// the number the comparator does not look at is arbitrary
	if ts {
		SstKey {
			user_key: uk.to_vec(),
			seq: salt % 7,
			kind: 2,
			ts: r,
		}
	} else {
		SstKey {
			user_key: uk.to_vec(),
			seq: r,
			kind: if salt % 2 == 0 { 2 } else { 0 },
			ts: salt.wrapping_mul(0x9e37_79b9_7f4a_7c15),
		}
	}
}

fn ver_of(ts: bool, k: &SstKey) -> u64 {
	if ts {
		k.ts
	} else {
		k.seq
	}
}

fn less(ts: bool, a: &SstKey, b: &SstKey) -> bool {
	ikey_less((&a.user_key, ver_of(ts, a)), (&b.user_key, ver_of(ts, b)))
}

pub fn judge_sep(v: &Value, maxver: u64, out: &mut Out) {
	let a0 = bytes_of(&v["a"]);
	let b0 = bytes_of(&v["b"]);
	let va = v["va"].as_u64().unwrap();
	let vb = v["vb"].as_u64().unwrap();
	let want_sep = bytes_of(&v["sep"]);
	let want_succ = bytes_of(&v["succ"]);
	let want_isep = ent_of(&v["isep"]);
	let want_isucc = ent_of(&v["isucc"]);
	for pfx in 0..3u8 {
		let p = prefix_bytes(pfx);
		let cat = |x: &[u8]| {
			let mut k = p.clone();
			k.extend_from_slice(x);
			k
		};
		let (a, b) = (cat(&a0), cat(&b0));
		out.count("separator_pairs", 1);
		// bytewise
		let sep = sst::bytewise_separator(&a, &b);
		if a < b && !(a <= sep && sep < b) {
			out.violation(
				"separator_out_of_bounds",
				format!("separator({}, {}) = {} is not in [a, b)", hex(&a), hex(&b), hex(&sep)),
				json!({"level": "bytewise"}),
			);
			return;
		}
		let succ = sst::bytewise_successor(&a);
		if succ < a {
			out.violation(
				"successor_below_key",
				format!("successor({}) = {} is below the key", hex(&a), hex(&succ)),
				json!({"level": "bytewise"}),
			);
			return;
		}
		if a < b && sep != cat(&want_sep) {
			out.drift("bytewise_separator_differs_from_spec", json!({"a": hex(&a), "b": hex(&b), "got": hex(&sep)}));
		}
		if pfx == 0 && succ != want_succ {
			out.drift("bytewise_successor_differs_from_spec", json!({"a": hex(&a), "got": hex(&succ)}));
		}
		// internal-key wrappers, both comparators
		for ts in [false, true] {
			let x = ikey(ts, maxver, &a, va, va * 3 + vb);
			let y = ikey(ts, maxver, &b, vb, vb * 5 + va);
			let c = sst::internal_compare(ts, &x, &y);
			let def = if less(ts, &x, &y) {
				-1
			} else if less(ts, &y, &x) {
				1
			} else {
				0
			};
			if c != def {
				out.drift("compare_differs_from_definition", json!({"ts": ts, "x": show_key(&x), "y": show_key(&y), "got": c}));
			}
			if def < 0 {
				let s = sst::internal_separator(ts, &x, &y);
				if less(ts, &s, &x) || !less(ts, &s, &y) {
					out.violation(
						"separator_out_of_bounds",
						format!("internal separator({}, {}) = {} is not in [a, b)", show_key(&x), show_key(&y), show_key(&s)),
						json!({"level": if ts { "timestamp" } else { "internal" }}),
					);
					return;
				}
				let w = (cat(&want_isep.uk), ver_real(ts, maxver, want_isep.ver));
				if (s.user_key.clone(), ver_of(ts, &s)) != w {
					out.drift("internal_separator_differs_from_spec", json!({"ts": ts, "x": show_key(&x), "y": show_key(&y), "got": show_key(&s)}));
				}
			}
			let s = sst::internal_successor(ts, &x);
			if less(ts, &s, &x) {
				out.violation(
					"successor_below_key",
					format!("internal successor({}) = {} is below the key", show_key(&x), show_key(&s)),
					json!({"level": if ts { "timestamp" } else { "internal" }}),
				);
				return;
			}
			if pfx == 0 && (s.user_key.clone(), ver_of(ts, &s)) != (want_isucc.uk.clone(), ver_real(ts, maxver, want_isucc.ver)) {
				out.drift("internal_successor_differs_from_spec", json!({"ts": ts, "x": show_key(&x), "got": show_key(&s)}));
			}
		}
	}
}

fn hex(b: &[u8]) -> String {
	verif_harness::keys::hex(b)
}
