//! Cases exported by TLC from spec/sst/{SstMC,SeparatorMC}.tla and their mapping to real bytes.
//!
//! Nothing in here judges: it only parses what the spec prescribes and turns
//! model keys / versions / value classes into the bytes handed to the real code.

use serde_json::{json, Value};
use surrealkv::verif::sst::{SstBound, SstEntry, SstKey, SstOptions};

pub const SEQ_MAX: u64 = (1 << 56) - 1;

#[derive(Clone, Debug, PartialEq, Eq, Hash)]
pub struct Ent {
	pub uk: Vec<u8>,
	pub ver: u64,
}

#[derive(Clone, Debug, PartialEq, Eq)]
pub enum BoundM {
	U,
	I(Vec<u8>),
	E(Vec<u8>),
}

pub fn bytes_of(v: &Value) -> Vec<u8> {
	v.as_array().map(|a| a.iter().map(|x| x.as_u64().unwrap() as u8).collect()).unwrap_or_default()
}

pub fn ent_of(v: &Value) -> Ent {
	Ent {
		uk: bytes_of(&v["uk"]),
		ver: v["ver"].as_u64().unwrap(),
	}
}

pub fn bound_of(v: &Value) -> BoundM {
	match v["t"].as_str().unwrap() {
		"U" => BoundM::U,
		"I" => BoundM::I(bytes_of(&v["k"])),
		"E" => BoundM::E(bytes_of(&v["k"])),
		t => panic!("bad bound {t}"),
	}
}

fn nested_usize(v: &Value) -> Vec<Vec<usize>> {
	v.as_array()
		.map(|a| {
			a.iter()
				.map(|r| r.as_array().map(|x| x.iter().map(|y| y.as_u64().unwrap() as usize).collect()).unwrap_or_default())
				.collect()
		})
		.unwrap_or_default()
}

/// A table as the spec built it: entries, placement of the cuts, separators.
#[derive(Clone, Debug)]
pub struct TableM {
	pub restart: usize,
	pub e: Vec<Ent>,
	/// data blocks: entry numbers (1-based)
	pub blocks: Vec<Vec<usize>>,
	/// partitions: block numbers (1-based)
	pub parts: Vec<Vec<usize>>,
	/// index keys per partition (only in SSTCASE lines)
	pub seps: Vec<Vec<Ent>>,
	pub maxver: u64,
}

impl TableM {
	pub fn parse(v: &Value) -> TableM {
		let l = &v["layout"];
		TableM {
			restart: v["restart"].as_u64().unwrap() as usize,
			e: v["E"].as_array().unwrap().iter().map(ent_of).collect(),
			blocks: nested_usize(&l["blocks"]),
			parts: nested_usize(&l["parts"]),
			seps: l["seps"]
				.as_array()
				.map(|a| a.iter().map(|p| p.as_array().map(|x| x.iter().map(ent_of).collect()).unwrap_or_default()).collect())
				.unwrap_or_default(),
			maxver: v["maxver"].as_u64().unwrap(),
		}
	}

	/// identity of (entries, layout, restart): programs of one table are grouped by it
	pub fn key(&self) -> String {
		let mut s = format!("r{}|", self.restart);
		for e in &self.e {
			s.push_str(&format!("{:?}@{},", e.uk, e.ver));
		}
		s.push_str(&format!("|{:?}|{:?}", self.blocks, self.parts));
		s
	}
}

/// What the property prescribes on a finished table (SSTCASE line).
#[derive(Clone, Debug)]
pub struct Probes {
	pub t: Vec<Vec<u8>>,
	pub s: Vec<u64>,
	pub b: Vec<BoundM>,
	pub gets: Vec<Vec<usize>>,
	pub seeks: Vec<Vec<usize>>,
	/// [lo][hi] -> (first, last) entry inside the range, 0 = none
	pub ranges: Vec<Vec<(usize, usize)>>,
}

impl Probes {
	pub fn parse(v: &Value) -> Probes {
		Probes {
			t: v["T"].as_array().unwrap().iter().map(bytes_of).collect(),
			s: v["S"].as_array().unwrap().iter().map(|x| x.as_u64().unwrap()).collect(),
			b: v["B"].as_array().unwrap().iter().map(bound_of).collect(),
			gets: nested_usize(&v["gets"]),
			seeks: nested_usize(&v["seeks"]),
			ranges: v["ranges"]
				.as_array()
				.unwrap()
				.iter()
				.map(|r| {
					r.as_array()
						.unwrap()
						.iter()
						.map(|p| (p[0].as_u64().unwrap() as usize, p[1].as_u64().unwrap() as usize))
						.collect()
				})
				.collect(),
		}
	}
}

#[derive(Clone, Debug)]
pub struct Op {
	pub op: u8, // 0 SeekFirst 1 SeekLast 2 Next 3 Prev 4 Seek
	pub k: Vec<u8>,
	pub s: u64,
	pub want: usize,
}

pub const OP_NAMES: [&str; 5] = ["SeekFirst", "SeekLast", "Next", "Prev", "Seek"];

/// A cursor program (SSTPROG line) on a table.
#[derive(Clone, Debug)]
pub struct Prog {
	pub lo: BoundM,
	pub hi: BoundM,
	pub ops: Vec<Op>,
	/// byte offset of the line in the TLC output (to rebuild a replay file)
	pub off: u64,
}

impl Prog {
	pub fn parse(v: &Value, off: u64) -> Prog {
		Prog {
			lo: bound_of(&v["lo"]),
			hi: bound_of(&v["hi"]),
			ops: v["ops"]
				.as_array()
				.unwrap()
				.iter()
				.map(|o| Op {
					op: OP_NAMES.iter().position(|n| *n == o["op"].as_str().unwrap()).expect("op name") as u8,
					k: bytes_of(&o["k"]),
					s: o["s"].as_u64().unwrap(),
					want: o["want"].as_u64().unwrap() as usize,
				})
				.collect(),
			off,
		}
	}
}

// ---- realisation: how a model table becomes a real table file -----------------------------

/// One concrete way of writing and reading a model table with the real code.
#[derive(Clone, Debug, PartialEq, Eq)]
pub struct Real {
	pub block_size: usize,
	pub restart: usize,
	pub part_size: usize,
	pub snappy: bool,
	pub filter: bool,
	/// 0 none, 1 long ascii prefix, 2 long prefix starting with 0xff 0xff
	pub prefix: u8,
	/// 0 identity, 1 spread over the upper bytes
	pub seqmap: u8,
	/// rotation of value classes / kinds / timestamps
	pub rot: u8,
	/// pad the last entry of every model block so that the writer cuts there
	pub steer: bool,
	pub in_mem: bool,
	pub custom_cmp: bool,
}

impl Real {
	pub fn to_json(&self) -> Value {
		json!({"block_size": self.block_size, "restart": self.restart, "part_size": self.part_size,
			"snappy": self.snappy, "filter": self.filter, "prefix": self.prefix, "seqmap": self.seqmap,
			"rot": self.rot, "steer": self.steer, "in_mem": self.in_mem, "custom_cmp": self.custom_cmp})
	}

	pub fn from_json(v: &Value) -> Real {
		Real {
			block_size: v["block_size"].as_u64().unwrap() as usize,
			restart: v["restart"].as_u64().unwrap() as usize,
			part_size: v["part_size"].as_u64().unwrap() as usize,
			snappy: v["snappy"].as_bool().unwrap(),
			filter: v["filter"].as_bool().unwrap(),
			prefix: v["prefix"].as_u64().unwrap() as u8,
			seqmap: v["seqmap"].as_u64().unwrap() as u8,
			rot: v["rot"].as_u64().unwrap() as u8,
			steer: v["steer"].as_bool().unwrap(),
			in_mem: v["in_mem"].as_bool().unwrap(),
			custom_cmp: v["custom_cmp"].as_bool().unwrap(),
		}
	}

	pub fn options(&self) -> SstOptions {
		SstOptions {
			block_size: self.block_size,
			restart_interval: self.restart,
			index_partition_size: self.part_size,
			snappy: self.snappy,
			filter: self.filter,
			level: 0,
		}
	}
}

pub fn prefix_bytes(p: u8) -> Vec<u8> {
	match p {
		0 => vec![],
		1 => b"tenant/00000000000000000017/table/users/key:".to_vec(),
		_ => {
			let mut v = vec![0xff, 0xff];
			v.extend_from_slice(b"pfx\xff\xfe/shared/long/prefix/of/every/key/\xff");
			v
		}
	}
}

pub fn map_key(real: &Real, uk: &[u8]) -> Vec<u8> {
	let mut k = prefix_bytes(real.prefix);
	k.extend_from_slice(uk);
	k
}

/// Order preserving map of model versions to real sequence numbers.
pub fn map_seq(real: &Real, maxver: u64, v: u64) -> u64 {
	if v >= maxver {
		SEQ_MAX
	} else if v == 0 {
		0
	} else if real.seqmap == 0 {
		v
	} else {
		(v << 40) | 5
	}
}

pub fn map_bound(real: &Real, b: &BoundM) -> SstBound {
	match b {
		BoundM::U => SstBound::Unbounded,
		BoundM::I(k) => SstBound::Included(map_key(real, k)),
		BoundM::E(k) => SstBound::Excluded(map_key(real, k)),
	}
}

fn mix(mut x: u64) -> u64 {
	x ^= x >> 33;
	x = x.wrapping_mul(0xff51_afd7_ed55_8ccd);
	x ^= x >> 33;
	x = x.wrapping_mul(0xc4ce_b9fe_1a85_ec53);
	x ^= x >> 33;
	x
}

pub fn hash_str(s: &str) -> u64 {
	let mut h = 0xcbf2_9ce4_8422_2325u64;
	for b in s.bytes() {
		h ^= b as u64;
		h = h.wrapping_mul(0x1000_0000_01b3);
	}
	mix(h)
}

const KINDS: [u8; 4] = [2, 0, 1, 6]; // Set, Delete, SoftDelete, Replace

/// Value of entry `i` (0-based) in class `c`.
fn value_of(i: usize, c: u8) -> Vec<u8> {
	match c {
		0 => vec![],
		1 => vec![i as u8],
		2 => {
			// ValueLocation{meta = BIT_VALUE_POINTER, version = 1, ValuePointer{..}} (27 bytes)
			let mut v = vec![1u8, 1u8, 1u8];
			v.extend_from_slice(&(7 + i as u32).to_be_bytes());
			v.extend_from_slice(&(4096 * i as u64 + 13).to_be_bytes());
			v.extend_from_slice(&(3u32 + i as u32).to_be_bytes());
			v.extend_from_slice(&(100_000u32 + i as u32).to_be_bytes());
			v.extend_from_slice(&(mix(i as u64) as u32).to_be_bytes());
			v
		}
		3 => (0..100).map(|j| b'a' + ((i + j / 10) % 26) as u8).collect(),
		_ => (0..64u64).map(|j| mix((i as u64) << 8 | j) as u8).collect(),
	}
}

fn pad_value(i: usize, len: usize) -> Vec<u8> {
	(0..len).map(|j| if j % 3 == 0 { mix((i * 131 + j) as u64) as u8 } else { b'P' }).collect()
}

/// Upper bound of what one entry adds to BlockWriter::size_estimate().
fn entry_cost(e: &SstEntry) -> usize {
	12 + e.key.user_key.len() + 16 + e.value.len() + 4
}

/// The real entries of a model table under `real`. With `steer`, the last entry of
/// every model block but the final one carries a value larger than the block size and
/// `block_size` is raised so that no other cut can happen.
pub fn materialise(t: &TableM, real: &mut Real) -> Vec<SstEntry> {
	let n = t.e.len();
	let mut out: Vec<SstEntry> = (0..n)
		.map(|i| {
			let r = real.rot as usize;
			let ts = match (i + r) % 4 {
				0 => 0,
				1 => u64::MAX,
				2 => mix((i + r) as u64),
				_ => 1_700_000_000_000_000_000u64.wrapping_sub(i as u64 * 1000),
			};
			SstEntry {
				key: SstKey {
					user_key: map_key(real, &t.e[i].uk),
					seq: map_seq(real, t.maxver, t.e[i].ver),
					kind: KINDS[(i + r) % 4],
					ts,
				},
				value: value_of(i, ((i + r) % 5) as u8),
			}
		})
		.collect();
	if real.steer {
		let need = t.blocks.iter().map(|b| b.iter().map(|&i| entry_cost(&out[i - 1])).sum::<usize>()).max().unwrap_or(0) + 64;
		if real.block_size < need {
			real.block_size = need;
		}
		for (bi, b) in t.blocks.iter().enumerate() {
			if bi + 1 < t.blocks.len() {
				let i = *b.last().unwrap() - 1;
				out[i].value = pad_value(i, real.block_size + 1 + (i % 7));
			}
		}
	}
	out
}

/// Layout of a real table in the model's terms: blocks of entry numbers, partitions of block numbers.
pub fn real_layout(parts: &[surrealkv::verif::sst::SstPartition]) -> (Vec<Vec<usize>>, Vec<Vec<usize>>) {
	let mut blocks = Vec::new();
	let mut ps = Vec::new();
	let mut n = 0usize;
	for p in parts {
		let mut pb = Vec::new();
		for ie in &p.entries {
			let b: Vec<usize> = (0..ie.keys.len()).map(|j| n + j + 1).collect();
			n += ie.keys.len();
			blocks.push(b);
			pb.push(blocks.len());
		}
		ps.push(pb);
	}
	(blocks, ps)
}

/// definitional internal order: user key ascending, sequence number descending
pub fn ikey_less(a: (&[u8], u64), b: (&[u8], u64)) -> bool {
	a.0 < b.0 || (a.0 == b.0 && a.1 > b.1)
}
