//! C13 spec -> implementation: runs what TLC exported from spec/sst/{SeparatorMC,SstMC}.tla
//! on the real surrealkv sorted-table code (through surrealkv::verif::sst).
//!
//!   sst_run run <tlc-output> [--tier quick|thorough] [--seed N] [--workers N]
//!   sst_run replay <replay.json>
//!   (internal) sst_run worker <file> <start> <end> <curfile> <tier> <seed> <resume_after>
//!   (internal) sst_run replay-inner <replay.json>
//!
//! Line kinds in the TLC output (each a JSON string literal printed by PrintT):
//!   SEPCASE  a pair of byte strings / internal keys with the spec's separator and successor
//!   SSTCASE  a finished table (entries, placement of block / partition cuts, separators) with
//!            what the property prescribes for every lookup, seek, bounded scan, range shortcut
//!   SSTPROG  a cursor program on a table (one per transition of the cursor's state graph)
//!
//! `run` splits the file into byte ranges, one child process per range. A child that dies
//! (abort, stack overflow) or burns HANG_CPU_SECS of CPU time without progress is a *violation* of the unit it
//! was executing (recorded in its `curfile`); it is restarted after that unit. Panics are
//! caught inside the child.

mod judge;
mod model;
mod sep;

use std::collections::{BTreeMap, HashMap};
use std::io::{BufRead, BufReader, Read, Seek, SeekFrom, Write};
use std::path::{Path, PathBuf};
use std::process::{Command, Stdio};
use std::sync::mpsc;
use std::time::{Duration, Instant};

use serde_json::{json, Value};
use verif_harness::out::Summary;

use judge::*;
use model::*;

/// A child that burns this much CPU time, or lets this much wall time pass, without finishing a
/// unit (a unit takes micro- to milliseconds) is stuck inside the code under test. CPU time is
/// the primary clock so that a loaded machine cannot produce a false "hang".
const HANG_CPU_SECS: f64 = 10.0;
const HANG_WALL_SECS: u64 = 180;
/// after this many hangs / aborts the rest of the input is abandoned (the verdict is settled)
const MAX_FATAL: u64 = 4;

/// user + system CPU seconds of a process (Linux /proc), None if it cannot be read
fn cpu_secs(pid: u32) -> Option<f64> {
	let s = std::fs::read_to_string(format!("/proc/{pid}/stat")).ok()?;
	let rest = &s[s.rfind(')')? + 2..];
	let f: Vec<&str> = rest.split(' ').collect();
	let ut: f64 = f.get(11)?.parse().ok()?;
	let st: f64 = f.get(12)?.parse().ok()?;
	Some((ut + st) / 100.0)
}

fn parse_line(line: &str) -> Option<(&'static str, Value)> {
	for tag in ["SSTPROG ", "SSTCASE ", "SEPCASE "] {
		if line.len() > tag.len() + 1 && line.as_bytes()[0] == b'"' && line[1..].starts_with(tag) {
			let s: String = serde_json::from_str(line.trim_end()).ok()?;
			let v: Value = serde_json::from_str(&s[tag.len()..]).ok()?;
			return Some((
				match tag {
					"SSTPROG " => "prog",
					"SSTCASE " => "table",
					_ => "sep",
				},
				v,
			));
		}
	}
	None
}

fn read_line_at(file: &str, off: u64) -> Option<(&'static str, Value)> {
	let mut f = std::fs::File::open(file).ok()?;
	f.seek(SeekFrom::Start(off)).ok()?;
	let mut line = String::new();
	BufReader::new(f).read_line(&mut line).ok()?;
	parse_line(&line)
}

struct Group {
	t: TableM,
	case_off: Option<u64>,
	probes: Option<Probes>,
	progs: Vec<Prog>,
}

/// The concrete ways a model table is written and read (see NOTES.md).
fn realisations(t: &TableM, thorough: bool, seed: u64) -> Vec<Real> {
	let h = hash_str(&t.key()) ^ seed.wrapping_mul(0x9e37_79b9_7f4a_7c15);
	let bit = |n: u32| (h >> n) & 1 == 1;
	let pick = |n: u32, m: u64| ((h >> n) % m) as usize;
	let restarts = [1usize, 2, 16];
	let bsizes = [24usize, 48, 80, 128, 256, 4096];
	let psizes = [1usize, 40, 70, 100, 160, 16384];
	let mut v = Vec::new();
	// 1. steered: the model's own placement of the cuts
	let steered = Real {
		block_size: [0usize, 1024, 4096][pick(3, 3)],
		restart: t.restart,
		part_size: 1 << 20,
		snappy: bit(5),
		filter: bit(6),
		prefix: pick(7, 3) as u8,
		seqmap: pick(9, 2) as u8,
		rot: pick(10, 20) as u8,
		steer: true,
		in_mem: false,
		custom_cmp: bit(15),
	};
	let cands: &[usize] =
		if thorough { &[1 << 20, 1, 30, 45, 60, 75, 90, 110, 130, 160, 200, 260, 340] } else { &[1 << 20, 1, 40, 60, 90, 130, 200] };
	v.push(if t.parts.len() <= 1 { steered.clone() } else { steer_partitions(t, &steered, cands) });
	// 2. every entry its own block, every block its own partition
	v.push(Real {
		block_size: 8, // = size_estimate() of an empty block: the smallest size the writer can work with
		restart: restarts[pick(16, 3)],
		part_size: 1,
		snappy: !steered.snappy,
		filter: !steered.filter,
		prefix: ((steered.prefix + 1) % 3),
		seqmap: 1 - steered.seqmap,
		rot: pick(18, 20) as u8,
		steer: false,
		in_mem: false,
		custom_cmp: !steered.custom_cmp,
	});
	// a block size below the fixed overhead of an empty block: panicked on the first add() until
	// fix 8dad511 (an empty block is never flushed); kept as a regression probe
	if pick(22, 32) == 0 {
		v.push(Real {
			block_size: [1usize, 4, 7][pick(28, 3)],
			part_size: psizes[pick(30, 6)],
			in_mem: true,
			..v[1].clone()
		});
	}
	// 3.. natural sizes: whatever layout the real writer produces
	let extra = if thorough { 3 } else { 1 };
	for j in 0..extra {
		let g = hash_str(&format!("{h}/{j}"));
		v.push(Real {
			block_size: bsizes[(g % 6) as usize],
			restart: restarts[((g >> 3) % 3) as usize],
			part_size: psizes[((g >> 5) % 6) as usize],
			snappy: (g >> 8) & 1 == 1,
			filter: (g >> 9) & 1 == 1,
			prefix: ((g >> 10) % 3) as u8,
			seqmap: ((g >> 12) % 2) as u8,
			rot: ((g >> 13) % 20) as u8,
			steer: j == 2,
			in_mem: j % 2 == 0,
			custom_cmp: (g >> 20) & 1 == 1,
		});
	}
	v
}

struct Worker {
	file: String,
	curfile: std::fs::File,
	resume_after: u64,
	seq: u64,
	out: Out,
	stdout: std::io::Stdout,
	violations: u64,
	per_sig: HashMap<String, u64>,
	last_u: Instant,
}

impl Worker {
	/// Returns false if the unit is to be skipped (already done before a restart).
	fn begin(&mut self, mode: &str, off: u64, real: Option<&Real>) -> bool {
		self.seq += 1;
		if self.seq <= self.resume_after {
			return false;
		}
		let rec = json!({"seq": self.seq, "mode": mode, "off": off, "real": real.map(|r| r.to_json())}).to_string();
		let _ = self.curfile.set_len(0);
		let _ = self.curfile.seek(SeekFrom::Start(0));
		let _ = self.curfile.write_all(rec.as_bytes());
		// progress line for the parent's watchdog (the unit itself is in curfile)
		if self.last_u.elapsed() > Duration::from_millis(100) {
			self.last_u = Instant::now();
			let _ = writeln!(self.stdout, "U {}", self.seq);
		}
		true
	}

	/// Flush what the unit found: violations go out at once with their replay document.
	fn end(&mut self, mode: &str, off: u64, real: Option<&Real>) {
		if self.out.violations.is_empty() && self.out.drifts.is_empty() {
			return;
		}
		let line = read_line_at(&self.file, off).map(|x| x.1).unwrap_or(Value::Null);
		for mut v in std::mem::take(&mut self.out.violations) {
			self.violations += 1;
			v["sig"] = sig_of(real, &v["stage"]);
			// replay documents for the first few violations of every distinct signature
			let key = format!("{}|{}", v["kind"], v["sig"]);
			let n = self.per_sig.entry(key).or_insert(0);
			*n += 1;
			if *n <= 2 {
				v["replay"] = json!({"driver": "sst_run", "mode": mode, "line": line, "real": real.map(|r| r.to_json())});
				let _ = writeln!(self.stdout, "V {v}");
			} else {
				let _ = writeln!(self.stdout, "V {}", json!({"kind": v["kind"], "sig": v["sig"], "suppressed": true}));
			}
		}
		for d in std::mem::take(&mut self.out.drifts) {
			let _ = writeln!(self.stdout, "D {d}");
		}
	}

	fn counters(&mut self) {
		let c: BTreeMap<&str, u64> = std::mem::take(&mut self.out.counters);
		if !c.is_empty() {
			let _ = writeln!(self.stdout, "C {}", serde_json::to_string(&c).unwrap());
		}
	}
}

/// structural facts about the realisation that go into a violation's signature
fn sig_of(real: Option<&Real>, stage: &Value) -> Value {
	json!({"block_size_below_8": real.map(|r| r.block_size < 8).unwrap_or(false),
		"stage": stage.as_str().unwrap_or("read")})
}

/// `stage`: "write" while the table is written and opened, "read" afterwards.
fn run_unit(w: &mut Worker, mode: &str, off: u64, real: Option<&Real>, stage: &str, f: impl FnOnce(&mut Out)) {
	if let Err(p) = verif_harness::catch(|| f(&mut w.out)) {
		w.out.violation("panic", format!("the code under test panicked: {p}"), json!({"message": p}));
	}
	for v in w.out.violations.iter_mut() {
		v["stage"] = json!(stage);
	}
	w.end(mode, off, real);
}

fn worker(args: &[String]) {
	let file = args[0].clone();
	let start: u64 = args[1].parse().unwrap();
	let end: u64 = args[2].parse().unwrap();
	let curfile = std::fs::OpenOptions::new().create(true).write(true).truncate(false).open(&args[3]).expect("curfile");
	let thorough = args[4] == "thorough";
	let seed: u64 = args[5].parse().unwrap();
	let resume_after: u64 = args[6].parse().unwrap();
	// never outlive the parent (a worker may be spinning inside the code under test)
	unsafe {
		libc::prctl(libc::PR_SET_PDEATHSIG, libc::SIGKILL);
	}
	verif_harness::quiet_panics();
	let mut w = Worker {
		file: file.clone(),
		curfile,
		resume_after,
		seq: 0,
		out: Out::default(),
		stdout: std::io::stdout(),
		violations: 0,
		per_sig: HashMap::new(),
		last_u: Instant::now(),
	};
	// ---- read this worker's byte range -------------------------------------------------
	let mut f = std::fs::File::open(&file).expect("open tlc output");
	let mut pos = start;
	if start > 0 {
		f.seek(SeekFrom::Start(start - 1)).unwrap();
		let mut rd = BufReader::new(&mut f);
		let mut skip = Vec::new();
		rd.read_until(b'\n', &mut skip).unwrap();
		pos = start - 1 + skip.len() as u64;
	}
	f.seek(SeekFrom::Start(pos)).unwrap();
	let mut rd = BufReader::with_capacity(1 << 20, f);
	let mut groups: Vec<Group> = Vec::new();
	let mut index: HashMap<String, usize> = HashMap::new();
	let mut seps: Vec<u64> = Vec::new();
	let mut line = String::new();
	let mut nlines = 0u64;
	let mut maxver_sep = 9u64;
	while pos < end {
		line.clear();
		let n = rd.read_line(&mut line).unwrap();
		if n == 0 {
			break;
		}
		let off = pos;
		pos += n as u64;
		nlines += 1;
		if nlines % 20_000 == 0 {
			let _ = writeln!(w.stdout, "U 0");
		}
		let Some((kind, v)) = parse_line(&line) else {
			continue;
		};
		match kind {
			"sep" => {
				maxver_sep = v["maxver"].as_u64().unwrap_or(9);
				seps.push(off)
			}
			_ => {
				let t = TableM::parse(&v);
				let key = t.key();
				let gi = *index.entry(key).or_insert_with(|| {
					groups.push(Group {
						t,
						case_off: None,
						probes: None,
						progs: Vec::new(),
					});
					groups.len() - 1
				});
				if kind == "table" {
					groups[gi].case_off = Some(off);
					groups[gi].probes = Some(Probes::parse(&v));
					// the SSTCASE line carries the separators
					groups[gi].t = TableM::parse(&v);
				} else {
					groups[gi].progs.push(Prog::parse(&v, off));
				}
			}
		}
	}
	drop(index);
	// ---- separator cases ------------------------------------------------------------------
	for off in seps {
		if !w.begin("sep", off, None) {
			continue;
		}
		let Some((_, v)) = read_line_at(&file, off) else {
			continue;
		};
		run_unit(&mut w, "sep", off, None, "read", |out| sep::judge_sep(&v, maxver_sep, out));
		if w.seq % 5000 == 0 {
			w.counters();
		}
	}
	w.counters();
	// ---- tables and cursor programs -------------------------------------------------------
	let dir = verif_harness::scratch_dir("sst");
	let mut id = (start << 8) + 1000;
	for g in &groups {
		let reals = realisations(&g.t, thorough, seed);
		for real in &reals {
			let nunits = g.probes.is_some() as u64 + g.progs.len() as u64;
			if w.seq + nunits <= w.resume_after {
				w.seq += nunits;
				continue;
			}
			id += 1;
			let mut built: Option<Built> = None;
			let mut failed = false;
			// the table is written and opened inside the first unit that is not skipped
			let mut units: Vec<(&str, u64, Option<&Prog>)> = Vec::new();
			if let Some(off) = g.case_off {
				units.push(("table", off, None));
			}
			for p in &g.progs {
				units.push(("prog", p.off, Some(p)));
			}
			for (mode, off, prog) in units {
				if !w.begin(mode, off, Some(real)) {
					continue;
				}
				if failed {
					continue;
				}
				if built.is_none() {
					let mut res: Option<Result<Built, (String, String)>> = None;
					run_unit(&mut w, mode, off, Some(real), "write", |out| {
						let r = build(&g.t, real.clone(), dir.path(), id);
						match &r {
							Ok(b) => judge_structure(b, &g.t, out),
							Err((kind, e)) => out.violation(kind, format!("writing / opening the table failed: {e}"), json!({})),
						}
						res = Some(r);
					});
					match res {
						Some(Ok(b)) => built = Some(b),
						_ => {
							failed = true;
							w.out.count("table_builds_failed", 1);
							continue;
						}
					}
				}
				let b = built.as_ref().unwrap();
				match prog {
					None => run_unit(&mut w, mode, off, Some(real), "read", |out| judge_table(b, &g.t, g.probes.as_ref().unwrap(), out)),
					Some(p) => run_unit(&mut w, mode, off, Some(real), "read", |out| judge_prog(b, &g.t, p, out)),
				}
			}
			w.counters();
		}
		w.out.count("model_tables", 1);
		if g.probes.is_some() {
			w.out.count("model_tables_with_probes", 1);
		}
	}
	w.counters();
	let _ = writeln!(w.stdout, "DONE {}", w.seq);
}

// ---- parent ---------------------------------------------------------------------------------

enum Msg {
	Line(usize, String),
	Eof(usize),
}

struct Slot {
	child: std::process::Child,
	last: Instant,
	cpu_at_last: f64,
	last_seq: u64,
	done: bool,
	eof: bool,
	restarts: u32,
	start: u64,
	end: u64,
	curfile: PathBuf,
}

fn spawn_worker(
	exe: &Path,
	file: &str,
	start: u64,
	end: u64,
	curfile: &Path,
	tier: &str,
	seed: u64,
	resume: u64,
	idx: usize,
	tx: &mpsc::Sender<Msg>,
) -> std::process::Child {
	let mut child = Command::new(exe)
		.arg("worker")
		.arg(file)
		.arg(start.to_string())
		.arg(end.to_string())
		.arg(curfile)
		.arg(tier)
		.arg(seed.to_string())
		.arg(resume.to_string())
		.env("RUST_BACKTRACE", "0")
		.stdout(Stdio::piped())
		.stderr(Stdio::null())
		.spawn()
		.expect("spawn worker");
	let out = child.stdout.take().unwrap();
	let tx = tx.clone();
	std::thread::spawn(move || {
		for l in BufReader::new(out).lines() {
			match l {
				Ok(l) => {
					if tx.send(Msg::Line(idx, l)).is_err() {
						return;
					}
				}
				Err(_) => break,
			}
		}
		let _ = tx.send(Msg::Eof(idx));
	});
	child
}

/// Count a violation; keep (with its replay document) the first few of every distinct
/// (kind, signature) so that no distinct signature is ever dropped from the summary.
fn keep_violation(sum: &mut Summary, kinds: &mut BTreeMap<String, u64>, v: Value) {
	let key = format!("{}|{}", v["kind"].as_str().unwrap_or("?"), v["sig"]);
	let n = kinds.entry(key).or_insert(0);
	*n += 1;
	sum.violation_count += 1;
	if v.get("suppressed").is_none() && *n <= 3 && sum.violations.len() < 200 {
		sum.violations.push(v);
	}
}

fn unit_replay(file: &str, curfile: &Path) -> (u64, Value) {
	let rec: Value = std::fs::read_to_string(curfile).ok().and_then(|s| serde_json::from_str(&s).ok()).unwrap_or(Value::Null);
	let seq = rec["seq"].as_u64().unwrap_or(0);
	let line = rec["off"].as_u64().and_then(|o| read_line_at(file, o)).map(|x| x.1).unwrap_or(Value::Null);
	(seq, json!({"driver": "sst_run", "mode": rec["mode"], "line": line, "real": rec["real"]}))
}

fn run(args: &[String]) {
	let file = args[0].clone();
	let mut tier = "quick".to_string();
	let mut seed = 1u64;
	let mut workers = std::thread::available_parallelism().map(|n| n.get()).unwrap_or(4).min(8);
	let mut i = 1;
	while i < args.len() {
		match args[i].as_str() {
			"--tier" => {
				tier = args[i + 1].clone();
				i += 1
			}
			"--seed" => {
				seed = args[i + 1].parse().unwrap();
				i += 1
			}
			"--workers" => {
				workers = args[i + 1].parse().unwrap();
				i += 1
			}
			_ => {}
		}
		i += 1;
	}
	let size = std::fs::metadata(&file).map(|m| m.len()).unwrap_or_else(|e| {
		eprintln!("cannot stat {file}: {e}");
		std::process::exit(2)
	});
	let exe = std::env::current_exe().unwrap();
	let dir = verif_harness::scratch_dir("sstpar");
	let (tx, rx) = mpsc::channel::<Msg>();
	let mut sum = Summary::new("sst_run");
	let mut counters: BTreeMap<String, u64> = BTreeMap::new();
	let mut kinds: BTreeMap<String, u64> = BTreeMap::new();
	// more chunks than workers: an unlucky chunk does not dominate the wall time
	let nchunks = (workers * 4).max(1) as u64;
	let mut pending: Vec<(u64, u64)> = (0..nchunks).map(|c| (size * c / nchunks, size * (c + 1) / nchunks)).filter(|(a, b)| b > a).collect();
	pending.reverse();
	let mut slots: Vec<Option<Slot>> = (0..workers).map(|_| None).collect();
	let mut gave_up = 0u64;
	let mut fatal = 0u64;
	let mut last_scan = Instant::now();
	loop {
		if fatal >= MAX_FATAL && !pending.is_empty() {
			gave_up += pending.len() as u64;
			pending.clear();
		}
		// start work on free slots
		for (idx, s) in slots.iter_mut().enumerate() {
			if s.is_none() {
				if let Some((a, b)) = pending.pop() {
					let curfile = dir.path().join(format!("cur-{idx}-{a}.json"));
					let child = spawn_worker(&exe, &file, a, b, &curfile, &tier, seed, 0, idx, &tx);
					*s = Some(Slot {
						child,
						last: Instant::now(),
						cpu_at_last: 0.0,
						last_seq: 0,
						done: false,
						eof: false,
						restarts: 0,
						start: a,
						end: b,
						curfile,
					});
				}
			}
		}
		if slots.iter().all(|s| s.is_none()) {
			break;
		}
		match rx.recv_timeout(Duration::from_millis(500)) {
			Ok(Msg::Line(idx, l)) => {
				if let Some(s) = slots[idx].as_mut() {
					s.last = Instant::now();
					s.cpu_at_last = -1.0; // re-sampled at the next scan
					if let Some(r) = l.strip_prefix("U ") {
						let q: u64 = r.parse().unwrap_or(0);
						if q > 0 {
							s.last_seq = q;
						}
					} else if let Some(r) = l.strip_prefix("V ") {
						if let Ok(v) = serde_json::from_str::<Value>(r) {
							keep_violation(&mut sum, &mut kinds, v);
						}
					} else if let Some(r) = l.strip_prefix("D ") {
						if let Ok(v) = serde_json::from_str::<Value>(r) {
							sum.drift(v);
						}
					} else if let Some(r) = l.strip_prefix("C ") {
						if let Ok(m) = serde_json::from_str::<BTreeMap<String, u64>>(r) {
							for (k, n) in m {
								*counters.entry(k).or_insert(0) += n;
							}
						}
					} else if l.starts_with("DONE ") {
						s.done = true;
					}
				}
			}
			Ok(Msg::Eof(idx)) => {
				if let Some(s) = slots[idx].as_mut() {
					s.eof = true;
				}
			}
			Err(mpsc::RecvTimeoutError::Timeout) => {}
			Err(_) => break,
		}
		// finished, dead or stuck workers (scanned a few times per second, not per line)
		if last_scan.elapsed() < Duration::from_millis(250) {
			continue;
		}
		last_scan = Instant::now();
		for idx in 0..slots.len() {
			let Some(s) = slots[idx].as_mut() else {
				continue;
			};
			let exited = matches!(s.child.try_wait(), Ok(Some(_)));
			let mut hung = false;
			if !exited {
				let cpu = cpu_secs(s.child.id()).unwrap_or(0.0);
				if s.cpu_at_last < 0.0 {
					s.cpu_at_last = cpu;
				}
				hung = cpu - s.cpu_at_last > HANG_CPU_SECS || s.last.elapsed() > Duration::from_secs(HANG_WALL_SECS);
			}
			if exited && !s.eof {
				continue; // drain its output first
			}
			if exited && s.done {
				slots[idx] = None;
				continue;
			}
			if !(exited || hung) {
				continue;
			}
			// data: the code under test killed or stalled the worker
			let status = if hung {
				let _ = s.child.kill();
				let _ = s.child.wait();
				"no progress".to_string()
			} else {
				format!("{:?}", s.child.wait().ok())
			};
			let (seq, replay) = unit_replay(&file, &s.curfile);
			let kind = if hung { "hang" } else { "abort" };
			keep_violation(&mut sum, &mut kinds, json!({"kind": kind,
				"what": format!("the code under test {} while executing this unit ({status})",
					if hung { format!("made no progress for {HANG_CPU_SECS}s of CPU time / {HANG_WALL_SECS}s") } else { "killed the process".to_string() }),
				"detail": {},
				"sig": {"block_size_below_8": replay["real"]["block_size"].as_u64().map(|b| b < 8).unwrap_or(false), "stage": "unknown"},
				"replay": replay}));
			let resume = seq.max(s.last_seq);
			s.restarts += 1;
			fatal += 1;
			if s.restarts > 2 || resume == 0 || fatal >= MAX_FATAL {
				gave_up += 1;
				slots[idx] = None;
				continue;
			}
			let (a, b, cf, rs) = (s.start, s.end, s.curfile.clone(), s.restarts);
			let child = spawn_worker(&exe, &file, a, b, &cf, &tier, seed, resume, idx, &tx);
			slots[idx] = Some(Slot {
				child,
				last: Instant::now(),
				cpu_at_last: 0.0,
				last_seq: resume,
				done: false,
				eof: false,
				restarts: rs,
				start: a,
				end: b,
				curfile: cf,
			});
		}
	}
	let g = |k: &str| counters.get(k).cloned().unwrap_or(0);
	sum.cases = g("separator_pairs") + g("real_tables") + g("programs") + g("table_builds_failed");
	sum.steps = g("gets") + g("seeks") + g("full_scans") + g("range_scans") + g("range_predicates") + g("program_ops") + g("separator_pairs");
	for (k, v) in &counters {
		sum.extra.insert(k.clone(), json!(v));
	}
	sum.extra.insert("violation_kinds".into(), json!(kinds));
	sum.extra.insert("workers_given_up".into(), json!(gave_up));
	// samples: the first lines of each kind
	if let Ok(f) = std::fs::File::open(&file) {
		let mut seen: HashMap<&str, u32> = HashMap::new();
		for l in BufReader::new(f).lines().map_while(Result::ok).take(200_000) {
			if let Some((k, v)) = parse_line(&l) {
				let c = seen.entry(k).or_insert(0);
				if *c < 1 {
					*c += 1;
					sum.sample(json!({"kind": k, "line": v}));
				}
				if seen.len() == 3 {
					break;
				}
			}
		}
	}
	sum.print();
}

fn replay_inner(path: &str) {
	unsafe {
		libc::prctl(libc::PR_SET_PDEATHSIG, libc::SIGKILL);
	}
	verif_harness::quiet_panics();
	let doc: Value = serde_json::from_str(&std::fs::read_to_string(path).expect("read replay")).expect("replay json");
	let rp = if doc.get("replay").is_some() { &doc["replay"] } else { &doc };
	let mode = rp["mode"].as_str().unwrap_or("");
	let line = &rp["line"];
	let mut out = Out::default();
	let r = verif_harness::catch(|| match mode {
		"sep" => sep::judge_sep(line, line["maxver"].as_u64().unwrap_or(9), &mut out),
		"table" | "prog" => {
			let t = TableM::parse(line);
			let real = Real::from_json(&rp["real"]);
			let dir = verif_harness::scratch_dir("sstreplay");
			let built = verif_harness::catch(|| build(&t, real, dir.path(), 77));
			let built = match built {
				Ok(b) => b,
				Err(p) => {
					out.violation("panic", format!("the code under test panicked: {p}"), json!({"message": p}));
					Err(("".into(), "".into()))
				}
			};
			for v in out.violations.iter_mut() {
				v["stage"] = json!("write");
			}
			match built {
				Err((kind, e)) => {
					if !kind.is_empty() {
						out.violation(&kind, format!("writing / opening the table failed: {e}"), json!({"stage": "write"}));
						let n = out.violations.len();
						out.violations[n - 1]["stage"] = json!("write");
					}
				}
				Ok(b) => {
					judge_structure(&b, &t, &mut out);
					if mode == "table" {
						judge_table(&b, &t, &Probes::parse(line), &mut out);
					} else {
						judge_prog(&b, &t, &Prog::parse(line, 0), &mut out);
					}
				}
			}
		}
		m => {
			eprintln!("unknown replay mode {m}");
			std::process::exit(2)
		}
	});
	if let Err(p) = r {
		out.violation("panic", format!("the code under test panicked: {p}"), json!({"message": p}));
	}
	let mut sum = Summary::new("sst_run");
	sum.cases = 1;
	for mut v in out.violations {
		v["replay"] = rp.clone();
		v["sig"] = sig_of(if rp["real"].is_object() { Some(Real::from_json(&rp["real"])) } else { None }.as_ref(), &v["stage"]);
		sum.violation(v);
	}
	for d in out.drifts {
		sum.drift(d);
	}
	sum.print();
}

fn replay(path: &str) {
	let exe = std::env::current_exe().unwrap();
	let mut child = Command::new(exe).arg("replay-inner").arg(path).env("RUST_BACKTRACE", "0").stdout(Stdio::piped()).stderr(Stdio::null()).spawn().expect("spawn");
	let t0 = Instant::now();
	let status = loop {
		match child.try_wait() {
			Ok(Some(st)) => break Some(st),
			Ok(None) if cpu_secs(child.id()).unwrap_or(0.0) > HANG_CPU_SECS || t0.elapsed() > Duration::from_secs(HANG_WALL_SECS) => {
				let _ = child.kill();
				let _ = child.wait();
				break None;
			}
			_ => std::thread::sleep(Duration::from_millis(50)),
		}
	};
	let mut text = String::new();
	if let Some(mut o) = child.stdout.take() {
		let _ = o.read_to_string(&mut text);
	}
	if let Some(l) = text.lines().find(|l| l.starts_with("SUMMARY ")) {
		println!("{l}");
		return;
	}
	let doc: Value = serde_json::from_str(&std::fs::read_to_string(path).unwrap_or_default()).unwrap_or(Value::Null);
	let rp = if doc.get("replay").is_some() { doc["replay"].clone() } else { doc };
	let mut sum = Summary::new("sst_run");
	sum.cases = 1;
	let kind = if status.is_none() { "hang" } else { "abort" };
	sum.violation(json!({"kind": kind, "what": format!("the code under test did not return ({status:?})"), "detail": {}, "replay": rp}));
	sum.print();
}

fn main() {
	let args: Vec<String> = std::env::args().collect();
	match args.get(1).map(|s| s.as_str()) {
		Some("run") if args.len() >= 3 => run(&args[2..]),
		Some("worker") if args.len() >= 9 => worker(&args[2..]),
		Some("replay") if args.len() >= 3 => replay(&args[2]),
		Some("replay-inner") if args.len() >= 3 => replay_inner(&args[2]),
		_ => {
			eprintln!("usage: sst_run run <tlc-output> [--tier quick|thorough] [--seed N] [--workers N] | sst_run replay <file>");
			std::process::exit(2);
		}
	}
}
