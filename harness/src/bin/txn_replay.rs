//! C08 spec -> implementation: replays programs exported by TLC from
//! spec/txn/TxnMC.tla (one per explored transition, or random ones from
//! -simulate) against a real `surrealkv::Transaction`.
//!
//! usage: txn_replay <file-with-TLC-output-or-ndjson> [--versioning]
//!
//! Each program: {"mode","snap":{k:v},"ops":[{"op","k","v","ts","res"}],"final":{k:v}}
//! Judgement (decides):   ok/err class and returned values, final view of a fresh reader,
//!                        invisibility of pending writes to a concurrent reader.
//! Drift (informational): error *variant* differs from the spec's.

use std::io::{BufRead, BufReader};

use serde_json::{json, Value};
use surrealkv::{Error, LSMIterator, Mode, Transaction, Tree, TreeBuilder};
use verif_harness::keys::{key_bytes, val_bytes};
use verif_harness::out::Summary;

fn err_name(e: &Error) -> &'static str {
	match e {
		Error::TransactionReadOnly => "ErrReadOnly",
		Error::TransactionClosed => "ErrClosed",
		Error::EmptyKey => "ErrEmptyKey",
		Error::TransactionWriteOnly => "ErrWriteOnly",
		Error::TransactionWithoutSavepoint => "ErrNoSavepoint",
		_ => "ErrOther",
	}
}

struct Ctx {
	tree: Tree,
	rt: tokio::runtime::Runtime,
	counter: u32,
}

fn pk(prefix: &[u8], name: &str) -> Vec<u8> {
	if name.is_empty() {
		return vec![];
	}
	let mut k = prefix.to_vec();
	k.extend_from_slice(&key_bytes(name));
	k
}

fn show(v: &Option<Vec<u8>>) -> String {
	match v {
		None => "ABSENT".to_string(),
		Some(b) => verif_harness::keys::hex(b),
	}
}

fn expect_val(name: &str) -> Option<Vec<u8>> {
	if name == "ABSENT" {
		None
	} else {
		Some(val_bytes(name))
	}
}

/// Returns (violations, drifts) found in this program.
fn run_program(cx: &mut Ctx, prog: &Value, sum: &mut Summary, commit_at_end: bool) {
	cx.counter += 1;
	let prefix = {
		let mut p = cx.counter.to_be_bytes().to_vec();
		p.push(b'/');
		p
	};
	let mode = match prog["mode"].as_str().unwrap() {
		"rw" => Mode::ReadWrite,
		"ro" => Mode::ReadOnly,
		"wo" => Mode::WriteOnly,
		m => panic!("bad mode {m}"),
	};
	let snap = prog["snap"].as_object().unwrap();
	let key_names: Vec<String> = snap.keys().cloned().collect();

	// establish the snapshot view
	{
		let mut t = cx.tree.begin().unwrap();
		let mut any = false;
		for (k, v) in snap {
			if let Some(b) = expect_val(v.as_str().unwrap()) {
				t.set(pk(&prefix, k), b).unwrap();
				any = true;
			}
		}
		if any {
			cx.rt.block_on(t.commit()).unwrap();
		}
	}

	let mut txn: Transaction = cx.tree.begin_with_mode(mode).unwrap();
	let ops = prog["ops"].as_array().unwrap();
	let bad = |sum: &mut Summary, kind: &str, i: usize, want: &str, got: String| {
		sum.violation(json!({"kind": kind, "step": i, "want": want, "got": got, "program": prog}));
	};
	let mut committed = false;
	for (i, op) in ops.iter().enumerate() {
		sum.steps += 1;
		let name = op["op"].as_str().unwrap();
		let k = pk(&prefix, op["k"].as_str().unwrap());
		let v = val_bytes(op["v"].as_str().unwrap());
		let ts = op["ts"].as_u64().unwrap();
		let want = op["res"].as_str().unwrap();
		// unit-returning operations
		let unit: Option<Result<(), Error>> = match name {
			"Set" => Some(txn.set(k.clone(), v.clone())),
			"SetAt" => Some(txn.set_at(k.clone(), v.clone(), ts)),
			"Replace" => Some(txn.replace(k.clone(), v.clone())),
			"Delete" => Some(txn.delete(k.clone())),
			"SoftDelete" => Some(txn.soft_delete(k.clone())),
			"SetSavepoint" => Some(txn.set_savepoint()),
			"RollbackToSavepoint" => Some(txn.rollback_to_savepoint()),
			"Rollback" => {
				txn.rollback();
				Some(Ok(()))
			}
			"Commit" => {
				let r = cx.rt.block_on(txn.commit());
				if r.is_ok() {
					committed = true;
				}
				Some(r)
			}
			"Get" => None,
			other => panic!("unknown op {other}"),
		};
		match unit {
			Some(Ok(())) => {
				if want != "Ok" {
					bad(sum, "accepted_but_must_reject", i, want, "Ok".into());
					return;
				}
			}
			Some(Err(e)) => {
				if want == "Ok" {
					bad(sum, "rejected_but_must_accept", i, want, format!("{e:?}"));
					return;
				} else if err_name(&e) != want {
					sum.drift(json!({"kind":"error_variant","step":i,"want":want,"got":format!("{e:?}")}));
				}
			}
			None => {
				let r = txn.get(k.clone());
				match r {
					Ok(got) => {
						if want.starts_with("Err") {
							bad(sum, "read_accepted_but_must_reject", i, want, show(&got));
							return;
						}
						if got != expect_val(want) {
							bad(sum, "read_wrong_value", i, want, show(&got));
							return;
						}
					}
					Err(e) => {
						if !want.starts_with("Err") {
							bad(sum, "read_rejected", i, want, format!("{e:?}"));
							return;
						} else if err_name(&e) != want {
							sum.drift(json!({"kind":"error_variant","step":i,"want":want,"got":format!("{e:?}")}));
						}
					}
				}
			}
		}
	}

	// Probe reads: the effect of the last step must be observable at once.
	if let Some(view) = prog["view"].as_object() {
		for (kn, want) in view {
			let want = want.as_str().unwrap();
			match txn.get(pk(&prefix, kn)) {
				Ok(got) => {
					if want.starts_with("Err") {
						bad(sum, "probe_read_accepted_but_must_reject", ops.len(), want, show(&got));
						return;
					}
					if got != expect_val(want) {
						bad(sum, "probe_read_wrong_value", ops.len(), want, show(&got));
						return;
					}
				}
				Err(e) => {
					if !want.starts_with("Err") {
						bad(sum, "probe_read_rejected", ops.len(), want, format!("{e:?}"));
						return;
					}
				}
			}
		}
	}

	// Range reads reflect the pending writes as well: forward and backward scans over the program's keys, and a
	// seek to every key (present, deleted or pending), must agree with the same view.
	if let Some(view) = prog["view"].as_object() {
		if view.values().all(|v| !v.as_str().unwrap_or("").starts_with("Err")) {
			let mut want: Vec<(Vec<u8>, Vec<u8>)> = view
				.iter()
				.filter(|(_, v)| v.as_str().unwrap() != "ABSENT")
				.map(|(k, v)| (pk(&prefix, k), val_bytes(v.as_str().unwrap())))
				.collect();
			want.sort();
			let mut hi = prefix.clone();
			hi.extend_from_slice(b"\xff\xff\xff");
			let collect = |fwd: bool| -> Result<Vec<(Vec<u8>, Vec<u8>)>, String> {
				let mut it = txn.range(prefix.clone(), hi.clone()).map_err(|e| e.to_string())?;
				let mut out = Vec::new();
				let mut ok = if fwd { it.seek_first() } else { it.seek_last() }.map_err(|e| e.to_string())?;
				while ok && it.valid() && out.len() < 100 {
					out.push((it.key().user_key().to_vec(), it.value().map_err(|e| e.to_string())?));
					ok = if fwd { it.next() } else { it.prev() }.map_err(|e| e.to_string())?;
				}
				if !fwd {
					out.reverse();
				}
				Ok(out)
			};
			for fwd in [true, false] {
				match collect(fwd) {
					Ok(got) if got == want => {}
					Ok(got) => {
						bad(sum, if fwd { "range_scan_wrong" } else { "reverse_range_scan_wrong" }, ops.len(),
							&format!("{:?}", want.iter().map(|(k, _)| verif_harness::keys::hex(k)).collect::<Vec<_>>()),
							format!("{:?}", got.iter().map(|(k, v)| format!("{}={}", verif_harness::keys::hex(k), verif_harness::keys::hex(v))).collect::<Vec<_>>()));
						return;
					}
					Err(e) => {
						bad(sum, "range_scan_error", ops.len(), "ok", e);
						return;
					}
				}
			}
			for kn in view.keys() {
				let target = pk(&prefix, kn);
				let exp = want.iter().find(|(k, _)| *k >= target).cloned();
				let got = (|| -> Result<Option<(Vec<u8>, Vec<u8>)>, String> {
					let mut it = txn.range(prefix.clone(), hi.clone()).map_err(|e| e.to_string())?;
					let ok = it.seek(&target).map_err(|e| e.to_string())?;
					if ok && it.valid() {
						Ok(Some((it.key().user_key().to_vec(), it.value().map_err(|e| e.to_string())?)))
					} else {
						Ok(None)
					}
				})();
				match got {
					Ok(g) if g == exp => {}
					Ok(g) => {
						bad(sum, "range_seek_wrong", ops.len(), &format!("{:?}", exp.map(|(k, _)| verif_harness::keys::hex(&k))),
							format!("{:?}", g.map(|(k, v)| format!("{}={}", verif_harness::keys::hex(&k), verif_harness::keys::hex(&v)))));
						return;
					}
					Err(e) => {
						bad(sum, "range_seek_error", ops.len(), "ok", e);
						return;
					}
				}
			}
		}
	}

	// Variant B: commit now (if the spec says the transaction is still open) and compare.
	if commit_at_end && prog["open"].as_bool() == Some(true) && prog["mode"] != "ro" {
		if let Err(e) = cx.rt.block_on(txn.commit()) {
			bad(sum, "commit_rejected", ops.len(), "Ok", format!("{e:?}"));
			return;
		}
		drop(txn);
		let fresh = cx.tree.begin_with_mode(Mode::ReadOnly).unwrap();
		for (kn, want) in prog["ifcommit"].as_object().unwrap() {
			let got = fresh.get(pk(&prefix, kn)).unwrap();
			let want = want.as_str().unwrap();
			if got != expect_val(want) {
				bad(sum, "committed_view_wrong", ops.len(), want, show(&got));
				return;
			}
		}
		return;
	}

	// Pending writes are invisible to others while the transaction is open.
	if !committed {
		let other = cx.tree.begin_with_mode(Mode::ReadOnly).unwrap();
		for kn in &key_names {
			let got = other.get(pk(&prefix, kn)).unwrap();
			let want = snap[kn].as_str().unwrap();
			if got != expect_val(want) {
				bad(sum, "pending_write_visible_to_other", ops.len(), want, show(&got));
				return;
			}
		}
	}
	drop(txn);

	// What a fresh transaction reads afterwards.
	let fin = prog["final"].as_object().unwrap();
	let fresh = cx.tree.begin_with_mode(Mode::ReadOnly).unwrap();
	for (kn, want) in fin {
		let got = fresh.get(pk(&prefix, kn)).unwrap();
		let want = want.as_str().unwrap();
		if got != expect_val(want) {
			bad(sum, "final_view_wrong", ops.len(), want, show(&got));
			return;
		}
	}
}

fn main() {
	let args: Vec<String> = std::env::args().collect();
	if args.len() < 2 {
		eprintln!("usage: txn_replay <file> [--versioning]");
		std::process::exit(2);
	}
	let versioning = args.iter().any(|a| a == "--versioning");
	verif_harness::quiet_panics();
	let dir = verif_harness::scratch_dir("txn");
	let rt = verif_harness::rt();
	let tree = {
		let _g = rt.enter();
		let mut b = TreeBuilder::new().with_path(dir.path().to_path_buf());
		if versioning {
			b = b.with_versioning(true, 0);
		}
		b.build().expect("open tree")
	};
	let mut cx = Ctx {
		tree,
		rt,
		counter: 0,
	};
	let mut sum = Summary::new("txn_replay");
	let f = std::fs::File::open(&args[1]).unwrap_or_else(|e| {
		eprintln!("cannot open {}: {e}", args[1]);
		std::process::exit(2)
	});
	let mut distinct_ops = std::collections::HashSet::new();
	for line in BufReader::new(f).lines() {
		let line = line.unwrap();
		let text: String = if line.starts_with("\"REPLAY ") {
			let s: String = serde_json::from_str(&line).unwrap();
			s["REPLAY ".len()..].to_string()
		} else if line.starts_with('{') {
			line
		} else {
			continue;
		};
		let prog: Value = match serde_json::from_str(&text) {
			Ok(v) => v,
			Err(e) => {
				eprintln!("bad program line: {e}");
				std::process::exit(2);
			}
		};
		sum.cases += 1;
		if let Some(last) = prog["ops"].as_array().and_then(|a| a.last()) {
			distinct_ops.insert(format!("{}:{}", last["op"], last["res"]));
		}
		if sum.cases % 50_000 == 1 {
			sum.sample(prog.clone());
		}
		let before = sum.violation_count;
		for commit_at_end in [false, true] {
			if commit_at_end && prog.get("ifcommit").is_none() {
				continue;
			}
			match verif_harness::catch(|| run_program(&mut cx, &prog, &mut sum, commit_at_end)) {
				Ok(()) => {}
				Err(p) => sum.violation(json!({"kind":"panic","message":p,"program":prog})),
			}
		}
		if sum.violation_count > before && sum.violation_count > 200 {
			break;
		}
	}
	sum.extra.insert("distinct_last_op_result_pairs".into(), json!(distinct_ops.len()));
	sum.extra.insert("versioning".into(), json!(versioning));
	sum.print();
	let rt = cx.rt;
	let tree = cx.tree;
	let _ = rt.block_on(tree.close());
}
