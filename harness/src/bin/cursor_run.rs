//! C09 driver: range cursors of a real `surrealkv::Transaction` against the
//! ideal cursor of spec/cursor/Cursor.tla.
//!
//! usage:
//!   cursor_run replay <tlc-output-or-ndjson> [--jobs N] [--variants N] [--seed S]
//!       spec -> implementation: every REPLAY line exported by TLC from CursorMC
//!       (layout recipe, bounds, cursor program with the expected observation
//!       after every call) is executed on a real Tree.
//!   cursor_run random --seed S --cases N [--jobs N] [--trace FILE] [--max-keys N]
//!       seeded random (layout, bounds, program) cases, much larger than the
//!       model's; judged by the ideal cursor; with --trace every observation is
//!       also logged as NDJSON for spec/cursor/CursorTrace.tla (implementation -> spec).
//!   cursor_run one <replay.json>
//!       re-run one recorded case (file written by `./check C09`).
//!   cursor_run worker <chunk-file>          (internal: child process)
//!
//! A case:
//!   {"ops":[{"op","a","b","kd","exp":{valid,k,v},"pred":{valid,k,v},"taint"}...],
//!    "live":[v_1..v_n], "layout":{...}?, "nkeys":n, "keytab":[hex..]?, "variant":i?}
//!   ops before the first "open" are the layout recipe (commit k kd | rotate | flush |
//!   compact level | begin | ws k valueid kd), then sessions: open lo hi, calls
//!   (seek t | first | last | next | prev), close.
//!
//! Judgement (decides): valid()/key()/value() after every call = `exp`; opening a
//!   cursor never panics; every panic / hang / abort of the code under test.
//! Drift (informational): observation differs from the spec's implementation-shaped
//!   prediction `pred`; physical layout differs from the predicted one.
//!
//! The code under test runs in child processes with a timeout: a hang or an
//! abort is reported as a violation of the case that was running.

use std::collections::{BTreeMap, HashMap, HashSet};
use std::io::{BufRead, BufReader, Write};
use std::path::{Path, PathBuf};
use std::process::{Command, Stdio};
use std::time::{Duration, Instant};

use rand::rngs::StdRng;
use rand::{Rng, SeedableRng};
use serde_json::{json, Value};
use surrealkv::{LSMIterator, Mode, Options, ReadOptions, Transaction, Tree, TreeBuilder};
use verif_harness::keys::{hex, key_bytes};
use verif_harness::out::Summary;

// ------------------------------------------------------------------------------------------
// configuration variants (the "configurations" of the property's quantifier)

#[derive(Clone, Debug)]
struct Variant {
	id: usize,
	block_size: usize,
	restart: usize,
	part_size: usize,
	versioning: bool,
	vlog: bool,
	pins: bool,
	long_keys: bool,
}

fn variant(id: usize) -> Variant {
	// pins = a read-only snapshot is kept after every commit so that compaction
	// keeps every version (the layout the spec predicts)
	let t: [(usize, usize, usize, bool, bool, bool, bool); 8] = [
		(64, 1, 1, false, false, true, false),
		(128, 2, 64, true, true, true, false),
		(16, 16, 1, false, false, false, false),
		(256, 16, 64, false, true, true, true),
		(64, 3, 1, true, true, false, true),
		(4096, 16, 16384, false, false, true, false),
		(96, 1, 32, false, false, false, true),
		(200, 4, 1, true, true, true, false),
	];
	let (block_size, restart, part_size, versioning, vlog, pins, long_keys) = t[id % t.len()];
	Variant {
		id: id % t.len(),
		block_size,
		restart,
		part_size,
		versioning,
		vlog,
		pins,
		long_keys,
	}
}
const NVARIANTS: usize = 8;

fn variant_json(v: &Variant) -> Value {
	json!({"id": v.id, "block_size": v.block_size, "restart": v.restart, "index_partition_size": v.part_size,
		"versioning": v.versioning, "vlog": v.vlog, "pins": v.pins, "long_keys": v.long_keys})
}

// ------------------------------------------------------------------------------------------
// keys and values

/// Key table for the model's keys 1..n (index 0 unused).
fn default_keytab(n: usize, long_keys: bool) -> Vec<Vec<u8>> {
	let mut t = vec![vec![]];
	for i in 1..=n {
		let short = key_bytes(&format!("k{i}"));
		if long_keys {
			// a long common prefix: every entry is larger than a small block and
			// separators between blocks must be cut deep inside the key
			let mut k = vec![b'p'; 70];
			k.extend_from_slice(&short);
			t.push(k);
		} else {
			t.push(short);
		}
	}
	// the byte order must equal the model order
	for i in 2..=n {
		assert!(t[i - 1] < t[i], "key table not ascending");
	}
	t
}

/// kinds whose value is live (Set, Replace); the others are tombstones
fn live_kind(kd: &str) -> bool {
	kd == "Set" || kd == "Replace"
}

fn is_empty_val(id: u64) -> bool {
	id == 3 || id == 1002
}

/// Value bytes for value identity `id` of key index `k`: distinguishable per
/// producer, several size classes (empty, tiny, around a block, larger than a block).
fn val_bytes(id: u64, k: usize) -> Vec<u8> {
	if is_empty_val(id) {
		return vec![];
	}
	let mut v = Vec::new();
	v.extend_from_slice(&(id as u32).to_be_bytes());
	v.extend_from_slice(&(k as u16).to_be_bytes());
	let pad = match (id as usize * 7 + k * 3) % 6 {
		0 => 0,
		1 => 1,
		2 => 30,
		3 => 90,
		4 => 300,
		_ => 7,
	};
	for i in 0..pad {
		v.push(((id as usize * 31 + k * 17 + i) % 251) as u8);
	}
	v
}

// ------------------------------------------------------------------------------------------
// cases

#[derive(Clone, Debug)]
struct Obs {
	valid: bool,
	k: i64,
	v: i64,
}

impl Obs {
	fn invalid() -> Obs {
		Obs {
			valid: false,
			k: 0,
			v: 0,
		}
	}
	fn from(v: &Value) -> Obs {
		Obs {
			valid: v["valid"].as_bool().unwrap_or(false),
			k: v["k"].as_i64().unwrap_or(0),
			v: v["v"].as_i64().unwrap_or(0),
		}
	}
	fn json(&self) -> Value {
		json!({"valid": self.valid, "k": self.k, "v": self.v})
	}
	fn same(&self, o: &Obs) -> bool {
		self.valid == o.valid && (!self.valid || (self.k == o.k && self.v == o.v))
	}
}

#[derive(Clone, Debug)]
struct Op {
	op: String,
	a: i64,
	b: i64,
	kd: String,
	exp: Obs,
	pred: Option<Obs>,
	taint: String,
}

impl Op {
	fn from(v: &Value) -> Op {
		if let Some(a) = v.as_array() {
			// compact tuple exported by CursorMC
			let s = |i: usize| a.get(i).and_then(|x| x.as_str()).unwrap_or("").to_string();
			let n = |i: usize| a.get(i).and_then(|x| x.as_i64()).unwrap_or(0);
			let op = s(0);
			let mut o = Op {
				op: op.clone(),
				a: 0,
				b: 0,
				kd: String::new(),
				exp: Obs::invalid(),
				pred: None,
				taint: String::new(),
			};
			match op.as_str() {
				"commit" => {
					o.a = n(1);
					o.kd = s(2);
				}
				"compact" => o.a = n(1),
				"ws" => {
					o.a = n(1);
					o.b = n(2);
					o.kd = s(3);
				}
				"open" => {
					o.a = n(1);
					o.b = n(2);
					o.kd = s(3);
					o.taint = s(4);
				}
				"seek" | "first" | "last" | "next" | "prev" => {
					o.a = n(1);
					o.exp = Obs {
						valid: n(2) != 0,
						k: n(3),
						v: n(4),
					};
					o.pred = Some(Obs {
						valid: n(5) != 0,
						k: n(6),
						v: n(7),
					});
					o.taint = s(8);
				}
				_ => {}
			}
			return o;
		}
		Op {
			op: v["op"].as_str().unwrap_or("").to_string(),
			a: v["a"].as_i64().unwrap_or(0),
			b: v["b"].as_i64().unwrap_or(0),
			kd: v["kd"].as_str().unwrap_or("").to_string(),
			exp: Obs::from(&v["exp"]),
			pred: v.get("pred").filter(|p| p.is_object()).map(Obs::from),
			taint: v["taint"].as_str().unwrap_or("").to_string(),
		}
	}
	fn json(&self) -> Value {
		let mut o = json!({"op": self.op, "a": self.a, "b": self.b, "kd": self.kd, "exp": self.exp.json(), "taint": self.taint});
		if let Some(p) = &self.pred {
			o["pred"] = p.json();
		}
		o
	}
	fn is_build(&self) -> bool {
		matches!(self.op.as_str(), "commit" | "rotate" | "flush" | "compact" | "begin" | "ws")
	}
}

#[derive(Clone, Debug)]
struct Case {
	ops: Vec<Op>,
	nbuild: usize,
	live: Vec<i64>, // index 1..=nkeys
	layout: Option<Value>,
	nkeys: usize,
	keytab: Option<Vec<Vec<u8>>>,
	variant: Option<usize>,
	origin: String,
}

fn unhex(s: &str) -> Vec<u8> {
	(0..s.len() / 2).map(|i| u8::from_str_radix(&s[2 * i..2 * i + 2], 16).unwrap()).collect()
}

impl Case {
	fn from(v: &Value, origin: &str) -> Result<Case, String> {
		let ops: Vec<Op> = v["ops"].as_array().ok_or("case without ops")?.iter().map(Op::from).collect();
		let nbuild = ops.iter().position(|o| !o.is_build()).unwrap_or(ops.len());
		if ops[nbuild..].iter().any(|o| o.is_build()) {
			return Err("layout step after the first open".into());
		}
		let nkeys = v["nkeys"].as_u64().ok_or("case without nkeys")? as usize;
		let mut live = vec![0i64];
		match &v["live"] {
			Value::Array(a) => live.extend(a.iter().map(|x| x.as_i64().unwrap_or(0))),
			_ => return Err("case without live".into()),
		}
		if live.len() != nkeys + 1 {
			return Err("live / nkeys mismatch".into());
		}
		let keytab = v.get("keytab").and_then(|k| k.as_array()).map(|a| {
			let mut t = vec![vec![]];
			t.extend(a.iter().map(|x| unhex(x.as_str().unwrap_or(""))));
			t
		});
		Ok(Case {
			ops,
			nbuild,
			live,
			layout: v.get("layout").filter(|l| l.is_array()).cloned(),
			nkeys,
			keytab,
			variant: v.get("variant").and_then(|x| x.as_u64()).map(|x| x as usize),
			origin: origin.to_string(),
		})
	}
	fn json(&self) -> Value {
		let mut o = json!({
			"ops": self.ops.iter().map(|o| o.json()).collect::<Vec<_>>(),
			"live": self.live[1..].to_vec(),
			"nkeys": self.nkeys,
			"origin": self.origin,
		});
		if let Some(l) = &self.layout {
			o["layout"] = l.clone();
		}
		if let Some(t) = &self.keytab {
			o["keytab"] = json!(t[1..].iter().map(|k| hex(k)).collect::<Vec<_>>());
		}
		if let Some(v) = self.variant {
			o["variant"] = json!(v);
		}
		o
	}
	fn recipe_key(&self) -> String {
		let mut s = String::new();
		for o in &self.ops[..self.nbuild] {
			s.push_str(&format!("{}:{}:{}:{};", o.op, o.a, o.b, o.kd));
		}
		if let Some(t) = &self.keytab {
			s.push('T');
			for k in &t[1..] {
				s.push_str(&hex(k));
				s.push(',');
			}
		}
		s
	}
}

// ------------------------------------------------------------------------------------------
// building the layout on a real tree

struct Env {
	// field order = drop order: transactions first, the tree last
	txn: Option<Transaction>,
	pins: Vec<Transaction>,
	tree: Option<Tree>,
	rt: tokio::runtime::Runtime,
	_dir: tempfile::TempDir,
	keytab: Vec<Vec<u8>>,
	key_index: HashMap<Vec<u8>, usize>,
	/// value identities ever written per key (to name an observed value)
	vals: Vec<Vec<u64>>,
	/// logical facts, used only to *classify* violations (never to judge TLC cases)
	snap_live: Vec<bool>,
	ws_kind: Vec<String>,
	/// largest key index held by a memtable (active or immutable) when the cursors are opened
	mem_max_key: usize,
	variant: Variant,
}

impl Drop for Env {
	fn drop(&mut self) {
		self.txn.take();
		self.pins.clear();
		if let Some(tree) = self.tree.take() {
			let _ = self.rt.block_on(tree.close());
		}
	}
}

fn open_tree(dir: &Path, v: &Variant) -> Result<Tree, String> {
	let mut o = Options::new()
		.with_path(dir.to_path_buf())
		.with_block_size(v.block_size)
		.with_block_restart_interval(v.restart)
		.with_index_partition_size(v.part_size)
		.with_level_count(3)
		.with_max_memtable_size(64 << 20);
	// nothing may run behind the driver's back
	o.level0_max_files = 1_000_000;
	o.l0_stall_threshold = 1_000_000;
	o.memtable_stall_threshold = 1_000_000;
	o.flush_on_close = false;
	if v.versioning {
		o = o.with_versioning(true, 0);
	} else if v.vlog {
		o = o.with_enable_vlog(true).with_vlog_value_threshold(50);
	}
	TreeBuilder::with_options(o).build().map_err(|e| format!("open tree: {e:?}"))
}

fn build_env(case: &Case, v: &Variant) -> Result<Env, String> {
	let dir = verif_harness::scratch_dir("cur");
	let rt = verif_harness::rt();
	let keytab = case.keytab.clone().unwrap_or_else(|| default_keytab(case.nkeys, v.long_keys));
	let n = keytab.len() - 1;
	let mut env = {
		let _g = rt.enter();
		let tree = open_tree(dir.path(), v)?;
		Env {
			txn: None,
			pins: vec![],
			tree: Some(tree),
			rt,
			_dir: dir,
			key_index: keytab.iter().enumerate().skip(1).map(|(i, k)| (k.clone(), i)).collect(),
			keytab,
			vals: vec![vec![]; n + 1],
			snap_live: vec![false; n + 1],
			ws_kind: vec![String::new(); n + 1],
			mem_max_key: 0,
			variant: v.clone(),
		}
	};
	let mut mems: Vec<usize> = vec![0]; // max key per memtable: immutables (oldest first) then the active one
	let mut seq = 0u64;
	let mut latest: Vec<Option<bool>> = vec![None; n + 1]; // latest committed version live?
	for o in &case.ops[..case.nbuild] {
		let _g = env.rt.enter();
		let tree = env.tree.as_ref().unwrap();
		let e = |e: surrealkv::Error| format!("layout step {}: {e:?}", o.op);
		match o.op.as_str() {
			"commit" => {
				seq += 1;
				let k = o.a as usize;
				// write-only: the committing transaction registers no snapshot of its own
				let mut t = tree.begin_with_mode(Mode::WriteOnly).map_err(e)?;
				match o.kd.as_str() {
					"Set" => t.set(env.keytab[k].clone(), val_bytes(seq, k)).map_err(e)?,
					"Replace" => t.replace(env.keytab[k].clone(), val_bytes(seq, k)).map_err(e)?,
					"Del" => t.delete(env.keytab[k].clone()).map_err(e)?,
					"SoftDel" => t.soft_delete(env.keytab[k].clone()).map_err(e)?,
					x => return Err(format!("bad kind {x}")),
				}
				env.rt.block_on(t.commit()).map_err(e)?;
				env.vals[k].push(seq);
				let l = mems.len() - 1;
				mems[l] = mems[l].max(k);
				if env.txn.is_none() {
					latest[k] = Some(live_kind(&o.kd));
				}
				if v.pins {
					env.pins.push(tree.begin_with_mode(Mode::ReadOnly).map_err(e)?);
				}
			}
			"rotate" => {
				tree.verif_rotate().map_err(e)?;
				if *mems.last().unwrap() != 0 {
					mems.push(0);
				}
			}
			"flush" => {
				tree.verif_flush_one().map_err(e)?;
				if mems.len() > 1 {
					mems.remove(0);
				}
			}
			"compact" => tree.verif_compact(o.a as u8).map_err(e)?,
			"begin" => {
				env.txn = Some(tree.begin().map_err(e)?);
			}
			"ws" => {
				let k = o.a as usize;
				let t = env.txn.as_mut().ok_or("ws before begin")?;
				match o.kd.as_str() {
					"Set" => t.set(env.keytab[k].clone(), val_bytes(o.b as u64, k)).map_err(e)?,
					"Replace" => t.replace(env.keytab[k].clone(), val_bytes(o.b as u64, k)).map_err(e)?,
					"Del" => t.delete(env.keytab[k].clone()).map_err(e)?,
					"SoftDel" => t.soft_delete(env.keytab[k].clone()).map_err(e)?,
					x => return Err(format!("bad kind {x}")),
				}
				env.vals[k].push(o.b as u64);
				env.ws_kind[k] = o.kd.clone();
			}
			x => return Err(format!("bad layout op {x}")),
		}
	}
	if env.txn.is_none() {
		let _g = env.rt.enter();
		env.txn = Some(env.tree.as_ref().unwrap().begin().map_err(|e| format!("begin: {e:?}"))?);
	}
	for k in 1..=n {
		env.snap_live[k] = latest[k] == Some(true);
	}
	env.mem_max_key = mems.iter().copied().max().unwrap_or(0);
	Ok(env)
}

/// Physical layout as the engine reports it, in the shape of CursorMC!LayoutOf.
fn real_layout(env: &Env) -> Value {
	let st = env.tree.as_ref().unwrap().verif_state();
	let mut lv: Vec<Vec<Value>> = vec![vec![], vec![], vec![]];
	for t in &st.tables {
		let lo = env.key_index.get(&t.smallest_key).copied().unwrap_or(0);
		let hi = env.key_index.get(&t.largest_key).copied().unwrap_or(0);
		lv[(t.level as usize).min(2)].push(json!({"n": t.num_entries, "lo": lo, "hi": hi}));
	}
	json!({"active_empty": st.active_empty, "imms": st.immutables.len(), "l0": lv[0], "l1": lv[1], "l2": lv[2]})
}

fn layout_differs(pred: &Value, real: &Value) -> Option<String> {
	// pred: [active, [imm sizes], l0, l1, l2] with tables [lo, hi, n]
	let pa = pred[0].as_u64().unwrap_or(0) == 0;
	if pa != real["active_empty"].as_bool().unwrap_or(true) {
		return Some("active".into());
	}
	if pred[1].as_array().map(|a| a.len()).unwrap_or(0) as u64 != real["imms"].as_u64().unwrap_or(0) {
		return Some("imms".into());
	}
	for (li, l) in ["l0", "l1", "l2"].iter().enumerate() {
		let mut p: Vec<(u64, u64, u64)> = pred[2 + li]
			.as_array()
			.map(|a| a.iter().map(|t| (t[0].as_u64().unwrap_or(0), t[1].as_u64().unwrap_or(0), t[2].as_u64().unwrap_or(0))).collect())
			.unwrap_or_default();
		let mut r: Vec<(u64, u64, u64)> = real[*l]
			.as_array()
			.map(|a| {
				a.iter()
					.map(|t| (t["lo"].as_u64().unwrap_or(0), t["hi"].as_u64().unwrap_or(0), t["n"].as_u64().unwrap_or(0)))
					.collect()
			})
			.unwrap_or_default();
		p.sort();
		r.sort();
		if p != r {
			return Some(l.to_string());
		}
	}
	None
}

// ------------------------------------------------------------------------------------------
// running cursor programs

fn observe(env: &Env, it: &impl LSMIterator) -> Result<Obs, String> {
	if !it.valid() {
		return Ok(Obs::invalid());
	}
	let kb = it.key().user_key().to_vec();
	let k = env.key_index.get(&kb).copied().unwrap_or(0);
	let vb = it.value().map_err(|e| format!("value(): {e:?}"))?;
	let mut v: i64 = -1;
	if k != 0 {
		for id in env.vals[k].iter().rev() {
			if val_bytes(*id, k) == vb {
				v = *id as i64;
				break;
			}
		}
	}
	Ok(Obs {
		valid: true,
		k: if k == 0 { -1 } else { k as i64 },
		v,
	})
}

fn bound(env: &Env, b: i64) -> Option<Vec<u8>> {
	if b == 0 {
		None
	} else {
		Some(env.keytab[b as usize].clone())
	}
}

#[derive(Clone, Copy, PartialEq, Debug)]
enum Api {
	Opts,
	Range,
}

/// Structural facts about the call that went wrong, for the violation signature.
/// Two known defects leave the cursor in a wrong internal state that only shows at a later call,
/// so the facts are collected over the calls since the cursor was opened / last re-positioned.
fn classify(env: &Env, case: &Case, sess: &[Op], i: usize, lo: i64, hi: i64) -> Value {
	let fwd = |o: &str| matches!(o, "seek" | "first" | "next");
	let call = sess[i].op.as_str();
	let inr = |k: usize| (lo == 0 || k as i64 >= lo) && (hi == 0 || (k as i64) < hi);
	// call k reverses the direction while the cursor stands (according to the property) on an entry
	// that only the write-set has, and the snapshot has nothing live on the side it came from
	let bad_switch = |k: usize| -> bool {
		if k == 0 {
			return false;
		}
		let c = sess[k].op.as_str();
		let sw = (c == "prev" && fwd(&sess[k - 1].op)) || (c == "next" && !fwd(&sess[k - 1].op));
		let cur = &sess[k - 1].exp;
		if !sw || !cur.valid {
			return false;
		}
		let e = cur.k as usize;
		let on_ws = live_kind(&env.ws_kind[e]) && !env.snap_live[e];
		let exhausted = if c == "prev" {
			!(e..=case.nkeys).any(|k| env.snap_live[k] && inr(k))
		} else {
			!(1..=e).any(|k| env.snap_live[k] && inr(k))
		};
		on_ws && exhausted
	};
	let dir_switch = i > 0 && ((call == "prev" && fwd(&sess[i - 1].op)) || (call == "next" && !fwd(&sess[i - 1].op)));
	// the internal state is rebuilt by seek / seek_first / seek_last
	let since = (0..=i).rev().find(|j| matches!(sess[*j].op.as_str(), "seek" | "first" | "last")).unwrap_or(0);
	let switched_badly = (since..=i).any(bad_switch);
	// a memtable holds a key at or past the upper bound, some call of this cursor moved forward
	// (caching that node), and a later call walked back from the end of the memtable (seek_last, or
	// prev re-positioning the sources); the cache is never dropped
	let mem_upper = hi != 0
		&& env.mem_max_key as i64 >= hi
		&& (0..=i).any(|b| matches!(sess[b].op.as_str(), "last" | "prev") && sess[..b].iter().any(|c| fwd(&c.op)));
	if !sess[i].taint.is_empty() {
		// the spec itself says which known defect this call runs into
		json!({"class": sess[i].taint})
	} else if switched_badly {
		json!({"class": "dir_switch_snapshot_exhausted"})
	} else if mem_upper {
		json!({"class": "memtable_upper_node_cached"})
	} else {
		json!({"class": "wrong_entry", "call": call, "dir_switch": dir_switch})
	}
}

struct Outcome {
	violation: Option<Value>,
	drift: Option<Value>,
	calls: u64,
	trace: Vec<Value>,
}

/// One cursor session: open with (lo, hi) through `api`, run the calls, compare.
fn run_session(env: &Env, case: &Case, open: &Op, calls: &[Op], api: Api, want_trace: bool) -> Outcome {
	let mut out = Outcome {
		violation: None,
		drift: None,
		calls: 0,
		trace: vec![],
	};
	let (lo, hi) = (open.a, open.b);
	let txn = env.txn.as_ref().unwrap();
	let lob = bound(env, lo);
	let hib = bound(env, hi);
	let mut observed: Vec<Value> = vec![];
	let res = verif_harness::catch(|| -> Result<Option<(usize, Obs, &'static str)>, String> {
		let mut ro = ReadOptions::new();
		ro.set_iterate_lower_bound(lob.clone());
		ro.set_iterate_upper_bound(hib.clone());
		let mut run = |it: &mut dyn FnMut(&Op) -> Result<Obs, String>| -> Result<Option<(usize, Obs, &'static str)>, String> {
			for (i, c) in calls.iter().enumerate() {
				let got = it(c)?;
				observed.push(got.json());
				if !got.same(&c.exp) {
					return Ok(Some((i, got, "wrong")));
				}
			}
			Ok(None)
		};
		macro_rules! drive {
			($iter:expr) => {{
				let mut it = $iter;
				let mut f = |c: &Op| -> Result<Obs, String> {
					let r = match c.op.as_str() {
						"seek" => it.seek(&env.keytab[c.a as usize]),
						"first" => it.seek_first(),
						"last" => it.seek_last(),
						"next" => it.next(),
						"prev" => it.prev(),
						x => return Err(format!("bad call {x}")),
					};
					let ret = r.map_err(|e| format!("{}(): {e:?}", c.op))?;
					let o = observe(env, &it)?;
					if ret != o.valid {
						return Err(format!("{}() returned {ret} but valid() = {}", c.op, o.valid));
					}
					Ok(o)
				};
				run(&mut f)
			}};
		}
		match api {
			Api::Opts => drive!(txn.range_with_options(&ro).map_err(|e| format!("range_with_options: {e:?}"))?),
			Api::Range => drive!(txn
				.range(lob.clone().unwrap(), hib.clone().unwrap())
				.map_err(|e| format!("range: {e:?}"))?),
		}
	});
	out.calls = observed.len() as u64;
	let api_s = if api == Api::Opts { "range_with_options" } else { "range" };
	let bounds_class = || -> Value {
		if lo == 0 || hi == 0 {
			json!({"class": "unbounded_side", "lower": lo != 0, "upper": hi != 0})
		} else if lo > hi {
			json!({"class": "inverted_range"})
		} else {
			json!({"class": "bounded"})
		}
	};
	let mk = |kind: &str, sig: Value, step: i64, want: Value, got: Value| -> Value {
		json!({"kind": kind, "signature": sig, "api": api_s, "lo": lo, "hi": hi, "step": step,
			"want": want, "got": got, "observed": observed,
			"calls": calls.iter().map(|c| c.json()).collect::<Vec<_>>(),
			"variant": variant_json(&env.variant)})
	};
	match res {
		Err(p) => {
			// a panic of the code under test, at open or inside a call
			let at_open = observed.is_empty();
			let mut sig = bounds_class();
			sig["panic"] = json!(true);
			// which of the two places that cannot take start > end: BTreeMap::range only panics
			// when the write-set is not empty
			sig["ws_empty"] = json!(env.ws_kind.iter().all(|k| k.is_empty()));
			if !at_open && sig["class"] == "bounded" {
				sig = json!({"class": "panic_in_call", "call": calls.get(observed.len()).map(|c| c.op.clone())});
			}
			out.violation = Some(mk("panic", sig, observed.len() as i64, json!("no panic"), json!(p)));
		}
		Ok(Err(e)) => {
			let sig = json!({"class": "error_or_inconsistent_return"});
			out.violation = Some(mk("error", sig, observed.len() as i64, json!("Ok"), json!(e)));
		}
		Ok(Ok(Some((i, got, _)))) => {
			// wrong observation: an absent bound that empties the cursor is its own class
			let mut sig = bounds_class();
			if sig["class"] == "bounded" || (sig["class"] == "unbounded_side" && (hi != 0 || got.valid)) {
				sig = classify(env, case, calls, i, lo, hi);
			}
			out.violation = Some(mk("wrong_observation", sig, i as i64, calls[i].exp.json(), got.json()));
		}
		Ok(Ok(None)) => {
			// property held; compare with the implementation-shaped prediction
			if open.kd == "Panic" {
				out.drift = Some(json!({"kind": "open_predicted_panic", "lo": lo, "hi": hi}));
			}
			for c in calls {
				if let Some(p) = &c.pred {
					if !p.same(&c.exp) {
						out.drift = Some(json!({"kind": "prediction_differs", "lo": lo, "hi": hi, "call": c.op, "pred": p.json(), "got": c.exp.json()}));
						break;
					}
				}
			}
		}
	}
	if want_trace {
		out.trace.push(json!({"e": "open", "lo": lo, "hi": hi, "res": if out.violation.as_ref().map(|v| v["kind"] == "panic" && observed.is_empty()).unwrap_or(false) {"panic"} else {"ok"}}));
		for (c, o) in calls.iter().zip(observed.iter()) {
			out.trace.push(json!({"e": "call", "op": c.op, "t": c.a, "valid": o["valid"], "k": o["k"], "v": o["v"]}));
		}
	}
	out
}

/// Probe observations on the final layout: full scans in both directions and point reads.
fn probes(env: &Env, case: &Case) -> Option<Value> {
	let n = case.nkeys;
	let txn = env.txn.as_ref().unwrap();
	let want: Vec<(i64, i64)> = (1..=n).filter(|k| case.live[*k] != 0).map(|k| (k as i64, case.live[k])).collect();
	// point reads first: a wrong view is not a cursor defect
	for k in 1..=n {
		let r = verif_harness::catch(|| txn.get(env.keytab[k].clone()));
		let got: i64 = match r {
			Ok(Ok(None)) => 0,
			Ok(Ok(Some(vb))) => env.vals[k].iter().rev().find(|id| val_bytes(**id, k) == vb).map(|x| *x as i64).unwrap_or(-1),
			Ok(Err(e)) => {
				return Some(json!({"kind": "probe_get_error", "signature": {"class": "view_get"}, "k": k, "got": format!("{e:?}")}))
			}
			Err(p) => return Some(json!({"kind": "panic", "signature": {"class": "view_get", "panic": true}, "k": k, "got": p})),
		};
		if got != case.live[k] {
			return Some(json!({"kind": "probe_get_wrong", "signature": {"class": "view_get"}, "k": k, "want": case.live[k], "got": got,
				"variant": variant_json(&env.variant)}));
		}
	}
	// full scans through range(first key, successor of the last key)
	let lo = env.keytab[1].clone();
	let mut hi = env.keytab[n].clone();
	hi.push(0);
	for backward in [false, true] {
		let r = verif_harness::catch(|| -> Result<Vec<(i64, i64)>, String> {
			let mut it = txn.range(lo.clone(), hi.clone()).map_err(|e| format!("{e:?}"))?;
			let mut got = vec![];
			let mut ok = if backward { it.seek_last() } else { it.seek_first() }.map_err(|e| format!("{e:?}"))?;
			while ok {
				let o = observe(env, &it)?;
				got.push((o.k, o.v));
				if got.len() > n + 2 {
					break;
				}
				ok = if backward { it.prev() } else { it.next() }.map_err(|e| format!("{e:?}"))?;
			}
			Ok(got)
		});
		let mut w = want.clone();
		if backward {
			w.reverse();
		}
		let dir = if backward { "backward" } else { "forward" };
		match r {
			Ok(Ok(got)) => {
				if got != w {
					return Some(json!({"kind": "probe_scan_wrong", "signature": {"class": "full_scan", "dir": dir},
						"want": w, "got": got, "variant": variant_json(&env.variant)}));
				}
			}
			Ok(Err(e)) => return Some(json!({"kind": "probe_scan_error", "signature": {"class": "full_scan", "dir": dir}, "got": e})),
			Err(p) => return Some(json!({"kind": "panic", "signature": {"class": "full_scan", "dir": dir, "panic": true}, "got": p})),
		}
	}
	None
}

/// Split the post-layout ops into sessions (open, calls).
fn sessions(case: &Case) -> Vec<(Op, Vec<Op>)> {
	let mut v: Vec<(Op, Vec<Op>)> = vec![];
	for o in &case.ops[case.nbuild..] {
		match o.op.as_str() {
			"open" => v.push((o.clone(), vec![])),
			"close" => {}
			_ => {
				if let Some(l) = v.last_mut() {
					l.1.push(o.clone());
				}
			}
		}
	}
	v
}

struct CaseResult {
	violations: Vec<Value>,
	drift: Vec<Value>,
	calls: u64,
	trace: Vec<Value>,
}

fn run_case_on(env: &Env, case: &Case, do_probes: bool, want_trace: bool) -> CaseResult {
	let mut r = CaseResult {
		violations: vec![],
		drift: vec![],
		calls: 0,
		trace: vec![],
	};
	for (open, calls) in sessions(case) {
		let apis: &[Api] = if open.a != 0 && open.b != 0 { &[Api::Opts, Api::Range] } else { &[Api::Opts] };
		for (ai, api) in apis.iter().enumerate() {
			let o = run_session(env, case, &open, &calls, *api, want_trace && ai == 0);
			r.calls += o.calls;
			// the trace handed to TLC holds the sessions that the driver found in order; the
			// others are reported as violations with their own replay file
			if o.violation.is_none() {
				r.trace.extend(o.trace);
			}
			if let Some(v) = o.violation {
				r.violations.push(v);
			}
			if let Some(d) = o.drift {
				r.drift.push(d);
			}
		}
	}
	if do_probes {
		if let Some(v) = probes(env, case) {
			r.violations.push(v);
		}
	}
	r
}

// ------------------------------------------------------------------------------------------
// worker: runs a chunk of cases (grouped by recipe) in this process

fn trace_prefix(case: &Case) -> Vec<Value> {
	// the logical history of the case for CursorTrace: commits, begin, pending writes
	let mut t = vec![json!({"e": "reset", "nkeys": case.nkeys})];
	let mut begun = false;
	for o in &case.ops[..case.nbuild] {
		match o.op.as_str() {
			"commit" => t.push(json!({"e": "commit", "k": o.a, "kind": o.kd})),
			"begin" => {
				begun = true;
				t.push(json!({"e": "begin"}))
			}
			"ws" => t.push(json!({"e": "ws", "k": o.a, "kind": o.kd, "v": o.b})),
			_ => {}
		}
	}
	if !begun {
		t.push(json!({"e": "begin"}));
	}
	t
}

fn worker(chunk: &str) {
	verif_harness::quiet_panics();
	let f = std::fs::File::open(chunk).expect("chunk");
	// chunk line: idx \t variants (comma separated) \t probes \t trace \t case json
	let mut cases: Vec<(usize, Case, Vec<usize>, bool, bool)> = vec![];
	for line in BufReader::new(f).lines() {
		let line = line.unwrap();
		let mut p = line.splitn(5, '\t');
		let idx: usize = p.next().unwrap().parse().unwrap();
		let variants: Vec<usize> = p.next().unwrap().split(',').map(|x| x.parse().unwrap()).collect();
		let probes = p.next().unwrap() == "1";
		let trace = p.next().unwrap() == "1";
		let v: Value = serde_json::from_str(p.next().unwrap()).expect("chunk case");
		let c = Case::from(&v, v["origin"].as_str().unwrap_or("tlc")).expect("case");
		cases.push((idx, c, variants, probes, trace));
	}
	let stdout = std::io::stdout();
	let mut o = std::io::BufWriter::with_capacity(1 << 16, stdout.lock());
	// consecutive cases with the same recipe share the tree and the transaction
	let mut i = 0;
	while i < cases.len() {
		let key = cases[i].1.recipe_key();
		let mut j = i;
		while j < cases.len() && cases[j].2 == cases[i].2 && cases[j].1.recipe_key() == key {
			j += 1;
		}
		for (vi, vid) in cases[i].2.clone().iter().enumerate() {
			let var = variant(*vid);
			writeln!(o, "START {} {}", cases[i].0, vid).unwrap();
			o.flush().unwrap();
			let env = verif_harness::catch(|| build_env(&cases[i].1, &var));
			let env = match env {
				Ok(Ok(e)) => e,
				Ok(Err(msg)) | Err(msg) => {
					for (n, c) in cases[i..j].iter().enumerate() {
						let viol = if n == 0 {
							json!([{"kind": "layout_build_failed", "signature": {"class": "layout_build"}, "got": msg, "variant": variant_json(&var)}])
						} else {
							json!([])
						};
						writeln!(o, "RESULT {}", json!({"idx": c.0, "variant": vid, "violations": viol, "drift": [], "calls": 0, "trace": []})).unwrap();
					}
					continue;
				}
			};
			for (n, c) in cases[i..j].iter().enumerate() {
				writeln!(o, "START {} {}", c.0, vid).unwrap();
				o.flush().unwrap();
				// the probe observations depend on the layout only: once per tree
				let mut r = run_case_on(&env, &c.1, c.3 && n == 0, c.4 && vi == 0);
				if n == 0 && var.pins && !var.versioning {
					if let Some(l) = &c.1.layout {
						let real = real_layout(&env);
						if let Some(what) = layout_differs(l, &real) {
							r.drift.push(json!({"kind": "layout_differs", "where": what, "pred": l, "real": real}));
						}
					}
				}
				let mut trace = vec![];
				if c.4 && vi == 0 && !r.trace.is_empty() {
					trace = trace_prefix(&c.1);
					trace.extend(r.trace);
				}
				if r.violations.is_empty() && r.drift.is_empty() && trace.is_empty() {
					writeln!(o, "OK {} {} {}", c.0, vid, r.calls).unwrap();
				} else {
					writeln!(o, "RESULT {}", json!({"idx": c.0, "variant": vid, "violations": r.violations, "drift": r.drift,
						"calls": r.calls, "trace": trace}))
					.unwrap();
				}
			}
			drop(env);
		}
		i = j;
	}
	writeln!(o, "END").unwrap();
	o.flush().unwrap();
}

// ------------------------------------------------------------------------------------------
// parent: distributes cases over child processes, survives hangs and aborts

struct Job {
	idx: usize,
	/// the case as JSON text (either op format)
	raw: String,
	/// recipe key: cases with equal keys share a tree
	key: String,
	variants: Vec<usize>,
	probes: bool,
	trace: bool,
}

/// Recipe key of a case given as JSON, without building the whole Case.
fn recipe_key_of(v: &Value) -> (String, usize, usize) {
	// returns (key, number of layout ops, number of ops)
	let mut s = String::new();
	let ops = v["ops"].as_array().map(|a| a.as_slice()).unwrap_or(&[]);
	let mut n = 0;
	for o in ops {
		let o = Op::from(o);
		if !o.is_build() {
			break;
		}
		s.push_str(&format!("{}:{}:{}:{};", o.op, o.a, o.b, o.kd));
		n += 1;
	}
	if let Some(t) = v.get("keytab").and_then(|k| k.as_array()) {
		s.push('T');
		for k in t {
			s.push_str(k.as_str().unwrap_or(""));
			s.push(',');
		}
	}
	(s, n, ops.len())
}

struct Totals {
	sum: Summary,
	trace_out: Option<std::fs::File>,
	trace_cases: u64,
	violating_cases: HashSet<usize>,
	classes: BTreeMap<String, u64>,
	tree_builds: u64,
	calls: u64,
}

fn record_result(tot: &mut Totals, jobs: &HashMap<usize, &Job>, r: &Value) {
	let idx = r["idx"].as_u64().unwrap() as usize;
	let job = jobs[&idx];
	tot.calls += r["calls"].as_u64().unwrap_or(0);
	for v in r["violations"].as_array().unwrap() {
		let mut v = v.clone();
		v["case"] = serde_json::from_str(&job.raw).unwrap_or(Value::Null);
		v["case"]["variant"] = r["variant"].clone();
		let class = v["signature"]["class"].as_str().unwrap_or("?").to_string();
		*tot.classes.entry(class).or_insert(0) += 1;
		tot.violating_cases.insert(idx);
		tot.sum.violation_count += 1;
		// keep at most a few per signature so that a flood of one class cannot hide another
		let sig = v["signature"].to_string();
		let same = tot.sum.violations.iter().filter(|x| x["signature"].to_string() == sig).count();
		if same < 3 && tot.sum.violations.len() < 60 {
			tot.sum.violations.push(v);
		}
	}
	for d in r["drift"].as_array().unwrap() {
		tot.sum.drift(d.clone());
	}
	if let Some(t) = r["trace"].as_array() {
		if !t.is_empty() {
			if let Some(f) = tot.trace_out.as_mut() {
				for line in t {
					writeln!(f, "{}", line).unwrap();
				}
				tot.trace_cases += 1;
			}
		}
	}
}

fn run_chunk_child(exe: &Path, chunk_path: &Path, timeout: Duration) -> (Vec<Value>, Option<(usize, usize, String)>) {
	// returns results and, if the child died or hung, (case idx, variant, how)
	let mut child = Command::new(exe)
		.arg("worker")
		.arg(chunk_path)
		.stdout(Stdio::piped())
		.stderr(Stdio::null())
		.env("RUST_BACKTRACE", "0")
		.spawn()
		.expect("spawn worker");
	let out = child.stdout.take().unwrap();
	let (tx, rx) = std::sync::mpsc::channel::<String>();
	let th = std::thread::spawn(move || {
		for line in BufReader::new(out).lines() {
			match line {
				Ok(l) => {
					if tx.send(l).is_err() {
						break;
					}
				}
				Err(_) => break,
			}
		}
	});
	let mut results = vec![];
	let mut current: Option<(usize, usize)> = None;
	let mut ended = false;
	let mut last = Instant::now();
	let mut how = String::new();
	loop {
		match rx.recv_timeout(Duration::from_millis(200)) {
			Ok(l) => {
				last = Instant::now();
				if let Some(rest) = l.strip_prefix("START ") {
					let mut p = rest.split(' ');
					current = Some((p.next().unwrap().parse().unwrap(), p.next().unwrap().parse().unwrap()));
				} else if let Some(rest) = l.strip_prefix("OK ") {
					let mut p = rest.split(' ');
					let idx: u64 = p.next().unwrap().parse().unwrap();
					let var: u64 = p.next().unwrap().parse().unwrap();
					let calls: u64 = p.next().unwrap().parse().unwrap();
					results.push(json!({"idx": idx, "variant": var, "calls": calls, "ok": true}));
				} else if let Some(rest) = l.strip_prefix("RESULT ") {
					results.push(serde_json::from_str(rest).expect("result json"));
				} else if l == "END" {
					ended = true;
				}
			}
			Err(std::sync::mpsc::RecvTimeoutError::Timeout) => {
				if last.elapsed() > timeout {
					let _ = child.kill();
					how = format!("hang: no progress for {:?}", timeout);
					break;
				}
			}
			Err(std::sync::mpsc::RecvTimeoutError::Disconnected) => break,
		}
	}
	let status = child.wait().ok();
	let _ = th.join();
	if ended {
		return (results, None);
	}
	if how.is_empty() {
		how = format!("abort: worker exited with {:?}", status);
	}
	let (idx, var) = current.unwrap_or((usize::MAX, 0));
	(results, Some((idx, var, how)))
}

/// After this many hangs / aborts the run stops: every further one costs a full timeout, and the
/// verdict is settled anyway.
const MAX_DEAD_WORKERS: usize = 6;

fn run_jobs(jobs: Vec<Job>, njobs: usize, tot: &mut Totals, timeout: Duration) {
	let exe = std::env::current_exe().unwrap();
	let dead = std::sync::atomic::AtomicUsize::new(0);
	let dir = verif_harness::scratch_dir("curchunk");
	let by_idx: HashMap<usize, &Job> = jobs.iter().map(|j| (j.idx, j)).collect();
	// keep recipe groups together: sort by recipe, cut into chunks at group boundaries
	let mut order: Vec<usize> = (0..jobs.len()).collect();
	let keys: Vec<String> = jobs.iter().map(|j| format!("{:?}|{}", j.variants, j.key)).collect();
	order.sort_by(|a, b| keys[*a].cmp(&keys[*b]).then(a.cmp(b)));
	tot.tree_builds += {
		let mut n = 0u64;
		let mut prev: Option<&String> = None;
		for i in &order {
			if prev != Some(&keys[*i]) {
				n += jobs[*i].variants.len() as u64;
			}
			prev = Some(&keys[*i]);
		}
		n
	};
	let target = (jobs.len() / (njobs * 4).max(1)).clamp(1, 4000);
	let mut chunks: Vec<Vec<usize>> = vec![];
	let mut cur: Vec<usize> = vec![];
	for (n, i) in order.iter().enumerate() {
		if cur.len() >= target && n > 0 && keys[*i] != keys[order[n - 1]] {
			chunks.push(std::mem::take(&mut cur));
		}
		cur.push(*i);
	}
	if !cur.is_empty() {
		chunks.push(cur);
	}
	let chunks = std::sync::Mutex::new(chunks.into_iter().enumerate().collect::<Vec<_>>());
	let results = std::sync::Mutex::new(Vec::<Value>::new());
	std::thread::scope(|s| {
		for _ in 0..njobs {
			s.spawn(|| loop {
				if dead.load(std::sync::atomic::Ordering::SeqCst) >= MAX_DEAD_WORKERS {
					break;
				}
				let next = chunks.lock().unwrap().pop();
				let Some((cid, mut items)) = next else { break };
				let mut attempt = 0;
				while !items.is_empty() && dead.load(std::sync::atomic::Ordering::SeqCst) < MAX_DEAD_WORKERS {
					attempt += 1;
					let path: PathBuf = dir.path().join(format!("chunk{cid}_{attempt}.ndjson"));
					{
						let mut f = std::io::BufWriter::new(std::fs::File::create(&path).unwrap());
						for i in &items {
							let j = &jobs[*i];
							let vs: Vec<String> = j.variants.iter().map(|v| v.to_string()).collect();
							writeln!(f, "{}\t{}\t{}\t{}\t{}", j.idx, vs.join(","), j.probes as u8, j.trace as u8, j.raw).unwrap();
						}
					}
					let (res, died) = run_chunk_child(&exe, &path, timeout);
					let _ = std::fs::remove_file(&path);
					let mut done: HashSet<usize> = HashSet::new();
					{
						let mut r = results.lock().unwrap();
						for x in res {
							// a result covers the case only when its last variant reported
							let idx = x["idx"].as_u64().unwrap() as usize;
							let last_var = *by_idx[&idx].variants.last().unwrap() as u64;
							if x["variant"].as_u64() == Some(last_var) {
								done.insert(idx);
							}
							r.push(x);
						}
					}
					match died {
						None => break,
						Some((idx, var, how)) => {
							dead.fetch_add(1, std::sync::atomic::Ordering::SeqCst);
							if idx != usize::MAX {
								let class = if how.starts_with("hang") { "hang" } else { "abort" };
								results.lock().unwrap().push(json!({"idx": idx, "variant": var, "calls": 0, "drift": [], "trace": [],
									"violations": [{"kind": class, "signature": {"class": class}, "got": how, "variant": variant_json(&variant(var))}]}));
								done.insert(idx);
							} else if attempt > 3 {
								eprintln!("worker dies before the first case: {how}");
								std::process::exit(2);
							}
							items.retain(|i| !done.contains(&jobs[*i].idx));
						}
					}
				}
			});
		}
	});
	if dead.load(std::sync::atomic::Ordering::SeqCst) >= MAX_DEAD_WORKERS {
		tot.sum.extra.insert("stopped_early".into(), json!(format!("{MAX_DEAD_WORKERS} workers hung or aborted")));
	}
	let mut seen: HashSet<(usize, u64)> = HashSet::new();
	for r in results.into_inner().unwrap() {
		// a case re-run after a crash of its chunk may report twice
		let key = (r["idx"].as_u64().unwrap() as usize, r["variant"].as_u64().unwrap_or(0));
		if !seen.insert(key) {
			continue;
		}
		if r.get("ok").is_some() {
			tot.calls += r["calls"].as_u64().unwrap_or(0);
			continue;
		}
		record_result(tot, &by_idx, &r);
	}
}

// ------------------------------------------------------------------------------------------
// replay of TLC exports

/// Light view of an exported case: the JSON text plus what the parent needs to schedule it.
struct RawCase {
	raw: String,
	key: String,
	nbuild: usize,
	nops: usize,
	last: String,
	variant: Option<usize>,
}

fn read_cases(path: &str) -> Vec<RawCase> {
	let f = std::fs::File::open(path).unwrap_or_else(|e| {
		eprintln!("cannot open {path}: {e}");
		std::process::exit(2)
	});
	let mut v = vec![];
	for line in BufReader::with_capacity(1 << 20, f).lines() {
		let line = line.unwrap();
		let text: String = if line.starts_with("\"REPLAY ") {
			let s: String = serde_json::from_str(&line).unwrap();
			s["REPLAY ".len()..].to_string()
		} else if line.starts_with('{') {
			line
		} else {
			continue;
		};
		let j: Value = serde_json::from_str(&text).unwrap_or_else(|e| {
			eprintln!("bad case line: {e}");
			std::process::exit(2)
		});
		let (key, nbuild, nops) = recipe_key_of(&j);
		let ops = j["ops"].as_array().unwrap_or_else(|| {
			eprintln!("bad case: no ops");
			std::process::exit(2)
		});
		if ops[nbuild..].iter().any(|o| Op::from(o).is_build()) {
			eprintln!("bad case: layout step after the first open");
			std::process::exit(2);
		}
		let last = ops.last().map(|o| {
			let o = Op::from(o);
			format!("{}:{}:{}", o.op, o.exp.valid, o.taint)
		});
		v.push(RawCase {
			raw: text,
			key,
			nbuild,
			nops,
			last: last.unwrap_or_default(),
			variant: j.get("variant").and_then(|x| x.as_u64()).map(|x| x as usize),
		});
	}
	v
}

fn arg<T: std::str::FromStr>(args: &[String], name: &str, default: T) -> T {
	args.iter().position(|a| a == name).and_then(|i| args.get(i + 1)).and_then(|s| s.parse().ok()).unwrap_or(default)
}

fn new_totals(trace_path: &str) -> Totals {
	Totals {
		sum: Summary::new("cursor_run"),
		trace_out: if trace_path.is_empty() { None } else { Some(std::fs::File::create(trace_path).expect("trace file")) },
		trace_cases: 0,
		violating_cases: HashSet::new(),
		classes: BTreeMap::new(),
		tree_builds: 0,
		calls: 0,
	}
}

fn cmd_replay(args: &[String]) {
	let path = &args[0];
	let njobs: usize = arg(args, "--jobs", 8);
	let nvar: usize = arg(args, "--variants", 2);
	let seed: u64 = arg(args, "--seed", 1);
	// layouts without any cursor program are only probed (full scans, point reads); with this
	// flag they are left out (used for -simulate output, where every candidate successor is printed)
	let skip_build_only = args.iter().any(|a| a == "--skip-build-only");
	let cases = read_cases(path);
	// A case without a cursor program whose recipe is a prefix of another case's recipe only
	// repeats a layout that is probed anyway: drop it (one tree per final layout).
	let mut extended: HashSet<String> = HashSet::new();
	for c in &cases {
		let parts: Vec<&str> = c.key.split_inclusive(';').collect();
		let mut s = String::new();
		for (n, part) in parts.iter().enumerate() {
			s.push_str(part);
			if !part.ends_with(';') {
				break;
			}
			if n + 1 < c.nbuild {
				extended.insert(s.clone());
			}
		}
		if c.nbuild < c.nops {
			extended.insert(c.key.clone());
		}
	}
	let mut tot = new_totals("");
	let mut jobs = vec![];
	let mut skipped = 0u64;
	let mut last_pairs: HashSet<String> = HashSet::new();
	let mut recipe_variant: HashMap<String, Vec<usize>> = HashMap::new();
	for (idx, c) in cases.into_iter().enumerate() {
		let build_only = c.nbuild == c.nops;
		if build_only && (skip_build_only || extended.contains(&c.key)) {
			skipped += 1;
			continue;
		}
		last_pairs.insert(c.last.clone());
		if tot.sum.samples.len() < 2 && c.nops > c.nbuild + 3 {
			tot.sum.sample(serde_json::from_str(&c.raw).unwrap());
		}
		// variants are a function of the recipe (so that cases of one recipe share trees),
		// rotated by the seed
		let n = recipe_variant.len();
		let variants = recipe_variant
			.entry(c.key.clone())
			.or_insert_with(|| {
				if let Some(v) = c.variant {
					vec![v]
				} else {
					(0..nvar).map(|i| (n + seed as usize + i * 3) % NVARIANTS).collect()
				}
			})
			.clone();
		jobs.push(Job {
			idx,
			probes: true,
			trace: false,
			variants,
			key: c.key,
			raw: c.raw,
		});
	}
	tot.sum.cases = jobs.len() as u64;
	let t0 = Instant::now();
	run_jobs(jobs, njobs, &mut tot, Duration::from_secs(arg(args, "--case-timeout", 15)));
	finish(tot, json!({"mode": "replay", "skipped_layout_only_cases": skipped, "distinct_last_call_outcomes": last_pairs.len(),
		"distinct_recipes": recipe_variant.len(), "wall_s": t0.elapsed().as_secs_f64()}));
}

fn finish(mut tot: Totals, mut extra: Value) {
	tot.sum.steps = tot.calls;
	extra["violating_cases"] = json!(tot.violating_cases.len());
	extra["violation_classes"] = json!(tot.classes);
	extra["tree_builds"] = json!(tot.tree_builds);
	extra["trace_cases"] = json!(tot.trace_cases);
	for (k, v) in extra.as_object().unwrap() {
		tot.sum.extra.insert(k.clone(), v.clone());
	}
	tot.sum.print();
}

// ------------------------------------------------------------------------------------------
// random cases: generator + ideal cursor (the property itself: a cursor over a sorted list)

fn gen_keytab(rng: &mut StdRng, n: usize) -> Vec<Vec<u8>> {
	let mut set: std::collections::BTreeSet<Vec<u8>> = std::collections::BTreeSet::new();
	let style = rng.random_range(0..4);
	let prefix: Vec<u8> = match style {
		0 => vec![],
		1 => vec![b'k'; rng.random_range(1..40)],
		2 => (0..rng.random_range(60..200)).map(|i| b'a' + (i % 7) as u8).collect(),
		_ => vec![0xff; rng.random_range(1..6)],
	};
	let alphabet: &[u8] = match rng.random_range(0..3) {
		0 => &[0x00, 0xff, b'a'],
		1 => &[b'a', b'b'],
		_ => &[0x00, 0x01, 0x7f, 0x80, 0xfe, 0xff, b'm'],
	};
	let mut guard = 0;
	while set.len() < n && guard < 10_000 {
		guard += 1;
		let mut k = prefix.clone();
		let len = if style == 0 { rng.random_range(1..5) } else { rng.random_range(0..5) };
		for _ in 0..len {
			k.push(alphabet[rng.random_range(0..alphabet.len())]);
		}
		if rng.random_range(0..10) == 0 {
			// a long tail: one entry spans several small blocks
			let t = rng.random_range(100..400);
			k.extend(std::iter::repeat(b'z').take(t));
		}
		if !k.is_empty() {
			set.insert(k);
		}
	}
	let mut t = vec![vec![]];
	t.extend(set.into_iter());
	t
}

fn gen_case(rng: &mut StdRng, max_keys: usize) -> Case {
	let nkeys = rng.random_range(2..=max_keys.max(2));
	let keytab = gen_keytab(rng, nkeys);
	let nkeys = keytab.len() - 1;
	let mut ops: Vec<Op> = vec![];
	let mk = |op: &str, a: i64, b: i64, kd: &str| Op {
		op: op.into(),
		a,
		b,
		kd: kd.into(),
		exp: Obs::invalid(),
		pred: None,
		taint: String::new(),
	};
	let kinds = ["Set", "Set", "Set", "Del", "SoftDel", "Set", "Replace", "Set", "Del", "SoftDel"];
	// data lives on a subset of the keys; the others are only bounds / targets
	let data: Vec<usize> = (1..=nkeys).filter(|_| rng.random_range(0..5) != 0).collect();
	let data = if data.is_empty() { vec![1] } else { data };
	let ncommit = match rng.random_range(0..10) {
		0 => rng.random_range(0..3),
		1..=5 => rng.random_range(3..20),
		_ => rng.random_range(20..90),
	};
	let p_struct = rng.random_range(0..30); // % of structural steps
	let mut snap: Vec<Option<(String, u64)>> = vec![None; nkeys + 1];
	let mut seq = 0u64;
	let mut active = 0;
	let mut imm = 0;
	let mut l0 = 0;
	let mut l1 = 0;
	for _ in 0..ncommit {
		let k = data[rng.random_range(0..data.len())];
		let kd = kinds[rng.random_range(0..kinds.len())];
		seq += 1;
		ops.push(mk("commit", k as i64, 0, kd));
		snap[k] = Some((kd.to_string(), seq));
		active += 1;
		while rng.random_range(0..100) < p_struct {
			match rng.random_range(0..6) {
				0 | 1 if active > 0 => {
					ops.push(mk("rotate", 0, 0, ""));
					active = 0;
					imm += 1;
				}
				2 | 3 if imm > 0 => {
					ops.push(mk("flush", 0, 0, ""));
					imm -= 1;
					l0 += 1;
				}
				4 if l0 > 0 => {
					ops.push(mk("compact", 0, 0, ""));
					l0 = 0;
					l1 = 1;
				}
				5 if l1 > 0 => {
					ops.push(mk("compact", 1, 0, ""));
				}
				_ => break,
			}
		}
	}
	ops.push(mk("begin", 0, 0, ""));
	// commits after begin: invisible; may be rotated / flushed, never compacted
	let nlate = if rng.random_range(0..3) == 0 { rng.random_range(1..12) } else { 0 };
	for _ in 0..nlate {
		let k = data[rng.random_range(0..data.len())];
		ops.push(mk("commit", k as i64, 0, kinds[rng.random_range(0..kinds.len())]));
		active += 1;
		if rng.random_range(0..4) == 0 && active > 0 {
			ops.push(mk("rotate", 0, 0, ""));
			active = 0;
			imm += 1;
		}
		if rng.random_range(0..4) == 0 && imm > 0 {
			ops.push(mk("flush", 0, 0, ""));
			imm -= 1;
		}
	}
	let nws = match rng.random_range(0..4) {
		0 => 0,
		1 => rng.random_range(1..3),
		_ => rng.random_range(1..(nkeys.min(10) + 2)),
	};
	let mut wsv: Vec<Option<(String, u64)>> = vec![None; nkeys + 1];
	for i in 0..nws {
		let k = rng.random_range(1..=nkeys);
		let kd = kinds[rng.random_range(0..kinds.len())];
		let id = 1001 + i as u64;
		ops.push(mk("ws", k as i64, id as i64, kd));
		wsv[k] = Some((kd.to_string(), id));
	}
	let nbuild = ops.len();
	// the transaction's view
	let mut live = vec![0i64; nkeys + 1];
	for k in 1..=nkeys {
		live[k] = match (&wsv[k], &snap[k]) {
			(Some((kd, id)), _) => {
				if live_kind(kd) {
					*id as i64
				} else {
					0
				}
			}
			(None, Some((kd, s))) => {
				if live_kind(kd) {
					*s as i64
				} else {
					0
				}
			}
			_ => 0,
		};
	}
	// sessions
	let nsess = rng.random_range(2..6);
	for _ in 0..nsess {
		let pick = |rng: &mut StdRng| -> i64 {
			if rng.random_range(0..7) == 0 {
				0
			} else {
				rng.random_range(1..=nkeys) as i64
			}
		};
		// mostly proper ranges; absent sides, empty and inverted ranges mixed in
		let (lo, hi) = match rng.random_range(0..20) {
			0 => (0, 0),
			1 => {
				let a = pick(rng);
				(a, a)
			}
			2 | 3 => (pick(rng), pick(rng)),
			_ => {
				let (a, b) = (pick(rng), pick(rng));
				if a != 0 && b != 0 && a > b {
					(b, a)
				} else {
					(a, b)
				}
			}
		};
		ops.push(mk("open", lo, hi, ""));
		let inr = |k: usize| (lo == 0 || k as i64 >= lo) && (hi == 0 || (k as i64) < hi);
		let l: Vec<usize> = (1..=nkeys).filter(|k| live[*k] != 0 && inr(*k)).collect();
		let targets: Vec<usize> = (1..=nkeys).filter(|k| inr(*k)).collect();
		let mut pos: usize = 0; // 1..=len valid
		let mut positioned = false;
		let ncalls = rng.random_range(1..16);
		let mut keep_dir = rng.random_range(0..2) == 0;
		for _ in 0..ncalls {
			let valid = positioned && pos >= 1 && pos <= l.len();
			let mut choice = rng.random_range(0..10);
			if !valid && choice >= 3 {
				choice = rng.random_range(0..3);
			}
			if choice == 0 && targets.is_empty() {
				choice = 1;
			}
			let (name, t) = match choice {
				0 => {
					let t = targets[rng.random_range(0..targets.len())];
					pos = 1 + l.iter().filter(|k| **k < t).count();
					("seek", t as i64)
				}
				1 => {
					pos = 1;
					("first", 0)
				}
				2 => {
					pos = l.len();
					("last", 0)
				}
				_ => {
					if rng.random_range(0..3) == 0 {
						keep_dir = !keep_dir;
					}
					if keep_dir {
						pos += 1;
						("next", 0)
					} else {
						pos -= 1;
						("prev", 0)
					}
				}
			};
			positioned = true;
			let mut o = mk(name, t, 0, "");
			if pos >= 1 && pos <= l.len() {
				o.exp = Obs {
					valid: true,
					k: l[pos - 1] as i64,
					v: live[l[pos - 1]],
				};
			}
			ops.push(o);
		}
		ops.push(mk("close", 0, 0, ""));
	}
	Case {
		ops,
		nbuild,
		live,
		layout: None,
		nkeys,
		keytab: Some(keytab),
		variant: None,
		origin: "random".into(),
	}
}

fn cmd_random(args: &[String]) {
	let seed: u64 = arg(args, "--seed", 1);
	let ncases: usize = arg(args, "--cases", 1000);
	let njobs: usize = arg(args, "--jobs", 8);
	let max_keys: usize = arg(args, "--max-keys", 24);
	let trace_path: String = arg(args, "--trace", String::new());
	let trace_every: usize = arg(args, "--trace-every", 1);
	let mut rng = StdRng::seed_from_u64(seed ^ 0x9e3779b97f4a7c15);
	let mut tot = new_totals(&trace_path);
	let mut jobs = vec![];
	for idx in 0..ncases {
		let mk = if idx % 4 == 0 { 6.min(max_keys) } else { max_keys };
		let mut c = gen_case(&mut rng, mk);
		let vid = rng.random_range(0..NVARIANTS);
		c.variant = Some(vid);
		if idx < 2 {
			let mut s = c.json();
			s["ops"] = json!(format!("{} ops", c.ops.len()));
			s["keytab"] = json!(format!("{} keys", c.nkeys));
			s["sample_session"] = json!(c.ops[c.nbuild..].iter().take(8).map(|o| o.json()).collect::<Vec<_>>());
			tot.sum.sample(s);
		}
		jobs.push(Job {
			idx,
			probes: true,
			trace: !trace_path.is_empty() && idx % trace_every == 0,
			variants: vec![vid],
			key: format!("#{idx}"),
			raw: c.json().to_string(),
		});
	}
	tot.sum.cases = jobs.len() as u64;
	let t0 = Instant::now();
	run_jobs(jobs, njobs, &mut tot, Duration::from_secs(arg(args, "--case-timeout", 15)));
	finish(tot, json!({"mode": "random", "seed": seed, "wall_s": t0.elapsed().as_secs_f64()}));
}

fn cmd_one(args: &[String]) {
	let text = std::fs::read_to_string(&args[0]).unwrap_or_else(|e| {
		eprintln!("cannot read {}: {e}", args[0]);
		std::process::exit(2)
	});
	let doc: Value = serde_json::from_str(&text).expect("replay json");
	let cj = if doc.get("replay").is_some() { doc["replay"]["case"].clone() } else { doc["case"].clone() };
	let case = Case::from(&cj, "replay").unwrap_or_else(|e| {
		eprintln!("bad case: {e}");
		std::process::exit(2)
	});
	let mut tot = new_totals("");
	let variants = vec![case.variant.unwrap_or(0)];
	tot.sum.cases = 1;
	run_jobs(
		vec![Job {
			idx: 0,
			key: String::new(),
			raw: case.json().to_string(),
			variants,
			probes: true,
			trace: false,
		}],
		1,
		&mut tot,
		Duration::from_secs(arg(args, "--case-timeout", 15)),
	);
	finish(tot, json!({"mode": "one"}));
}

// ------------------------------------------------------------------------------------------
// probe: which of the defects known to the spec does the code under test show?  The check
// feeds the answers into the Bug* constants of Cursor.tla so that the model always describes
// the code as it is (DESIGN 6: the spec models the code; a repaired defect switches its flag off).

fn cmd_probe() {
	let call = |op: &str, t: i64, valid: i64, k: i64, v: i64| json!([op, t, valid, k, v, valid, k, v, ""]);
	let cases: Vec<(&str, Value, Value)> = vec![
		// absent upper bound: the cursor over {k1} must show k1
		(
			"none_bound",
			json!([["commit", 1, "Set"], ["begin"], ["open", 0, 0, "Ok", ""], call("first", 0, 1, 1, 1)]),
			json!([1, 0, 0]),
		),
		// inverted range: with a pending write, and with a table on level 1 and no pending write
		(
			"inv_ws",
			json!([["commit", 1, "Set"], ["begin"], ["ws", 2, 1001, "Set"], ["open", 3, 1, "Ok", ""], call("first", 0, 0, 0, 0)]),
			json!([1, 1001, 0]),
		),
		(
			"inv_lvl",
			json!([["commit", 1, "Set"], ["rotate"], ["flush"], ["compact", 0], ["begin"], ["open", 3, 1, "Ok", ""], call("first", 0, 0, 0, 0)]),
			json!([1, 0, 0]),
		),
		// direction change on a write-set entry while the snapshot side is exhausted
		(
			"switch",
			json!([["commit", 1, "Set"], ["begin"], ["ws", 2, 1001, "Set"], ["open", 1, 3, "Ok", ""], call("seek", 2, 1, 2, 1001), call("prev", 0, 1, 1, 1)]),
			json!([1, 1001, 0]),
		),
		// seek_last after a forward run has met a memtable entry at / past the upper bound
		(
			"mem_last",
			json!([["commit", 1, "Set"], ["commit", 3, "Set"], ["begin"], ["open", 1, 2, "Ok", ""], call("first", 0, 1, 1, 1), call("next", 0, 0, 0, 0), call("last", 0, 1, 1, 1)]),
			json!([1, 0, 2]),
		),
	];
	let mut tot = new_totals("");
	let jobs: Vec<Job> = cases
		.iter()
		.enumerate()
		.map(|(idx, (_, ops, live))| Job {
			idx,
			raw: json!({"ops": ops, "live": live, "nkeys": 3, "origin": "probe"}).to_string(),
			key: format!("#{idx}"),
			variants: vec![0],
			probes: false,
			trace: false,
		})
		.collect();
	tot.sum.cases = jobs.len() as u64;
	// the code under test runs in child processes: a probe that hangs or aborts counts as "shows the defect"
	run_jobs(jobs, 4, &mut tot, Duration::from_secs(15));
	let bad = |name: &str| -> bool {
		let idx = cases.iter().position(|c| c.0 == name).unwrap();
		tot.violating_cases.contains(&idx)
	};
	let flags = json!({"BugNoneBound": bad("none_bound"), "BugInverted": bad("inv_ws") || bad("inv_lvl"),
		"BugSwitch": bad("switch"), "BugMemLast": bad("mem_last")});
	let sites = json!({"write_set_range": bad("inv_ws"), "level_table_slice": bad("inv_lvl")});
	// only hangs / aborts are reported from here; the defects themselves are reported by the cases TLC exports
	tot.sum.violations.retain(|v| matches!(v["signature"]["class"].as_str(), Some("hang") | Some("abort")));
	tot.sum.violation_count = tot.sum.violations.len() as u64;
	tot.classes.retain(|k, _| k == "hang" || k == "abort");
	finish(tot, json!({"mode": "probe", "flags": flags, "inverted_sites": sites}));
}

fn main() {
	let args: Vec<String> = std::env::args().skip(1).collect();
	if args.is_empty() {
		eprintln!("usage: cursor_run replay|random|one|worker ...");
		std::process::exit(2);
	}
	match args[0].as_str() {
		"worker" => worker(&args[1]),
		"replay" => cmd_replay(&args[1..]),
		"random" => cmd_random(&args[1..]),
		"one" => cmd_one(&args[1..]),
		"probe" => cmd_probe(),
		_ => {
			eprintln!("unknown mode {}", args[0]);
			std::process::exit(2)
		}
	}
}
