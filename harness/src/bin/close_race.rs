//! C02 / C17 directed scenario: a commit that has been logged but not yet applied when close() runs.
//!
//! usage: close_race [--flush-on-close]
//! Schedule (gate scheduler): T commits k1 (acknowledged). U: begin, set k2, commit -> parked at "commit.logged"
//! (record in the commit log, not yet in the memtable). close() runs to completion on another thread. U is released:
//! its commit() returns Ok or Err. The directory is reopened: if U's commit returned Ok, k2 must be there (C02);
//! whatever happened, close() and commit() must both have returned (C17).
use std::sync::{Arc, Mutex};
use std::time::Duration;

use serde_json::json;
use surrealkv::{Mode, Options, TreeBuilder};
use verif_harness::out::Summary;
use verif_harness::sched::{GateSink, Status};

fn main() {
	let args: Vec<String> = std::env::args().collect();
	let foc = args.iter().any(|a| a == "--flush-on-close");
	verif_harness::quiet_panics();
	let sink = GateSink::install();
	let mut sum = Summary::new("close_race");
	for park_at in ["commit.permit", "commit.logged", "commit.applied", "commit.marked"] {
		sum.cases += 1;
		let dir = verif_harness::scratch_dir("close");
		let rt = verif_harness::rt_multi(2);
		let _g = rt.enter();
		let mut opts = Options::new().with_path(dir.path().to_path_buf()).with_flush_on_close(foc);
		opts.level0_max_files = 64;
		let opts = opts.with_l0_stall_threshold(64);
		let tree = TreeBuilder::with_options(opts.clone()).build().expect("open");
		{
			let mut t = tree.begin().unwrap();
			t.set(b"k1", b"v1").unwrap();
			rt.block_on(t.commit()).unwrap();
		}
		let token = 7000 + sum.cases;
		let res: Arc<Mutex<Option<Result<(), String>>>> = Arc::new(Mutex::new(None));
		let (t2, res2, sink2) = (tree.clone(), res.clone(), sink.clone());
		let h = std::thread::spawn(move || {
			GateSink::enroll(token);
			let rt = verif_harness::rt();
			let mut u = t2.begin().unwrap();
			u.set(b"k2", b"v2").unwrap();
			let r = rt.block_on(u.commit()).map_err(|e| e.to_string());
			*res2.lock().unwrap() = Some(r);
			drop(u);
			drop(t2);
			sink2.finish(token);
		});
		// run U up to the chosen yield point
		let mut reached = false;
		for _ in 0..20 {
			match sink.status(token, Duration::from_secs(10)) {
				Status::Parked(site, _) if site == park_at => {
					reached = true;
					break;
				}
				Status::Parked(_, _) => sink.release(token),
				_ => break,
			}
		}
		if !reached {
			sum.drift(json!({"kind":"yield_point_not_reached","site":park_at}));
		}
		// close() while U is parked
		let t3 = tree.clone();
		let (ctx, crx) = std::sync::mpsc::channel();
		let rth = rt.handle().clone();
		std::thread::spawn(move || {
			let r = rth.block_on(t3.close()).map_err(|e| e.to_string());
			let _ = ctx.send(r);
			std::mem::forget(t3);
		});
		let close_res = crx.recv_timeout(Duration::from_secs(3));
		if close_res.is_err() {
			// close may legitimately wait for the in-flight commit: release U and wait again
			sink.release(token);
		}
		// let U finish
		for _ in 0..40 {
			match sink.status(token, Duration::from_millis(500)) {
				Status::Done => break,
				Status::Parked(_, _) => sink.release(token),
				Status::Timeout => {}
			}
		}
		let close_res = match close_res {
			Ok(r) => Some(r),
			Err(_) => crx.recv_timeout(Duration::from_secs(20)).ok(),
		};
		let _ = h.join();
		let ures = res.lock().unwrap().clone();
		if close_res.is_none() {
			sum.violation(json!({"kind":"close_never_returns","parked_at":park_at,"flush_on_close":foc}));
			continue;
		}
		if ures.is_none() {
			sum.violation(json!({"kind":"commit_never_returns","parked_at":park_at,"flush_on_close":foc}));
			continue;
		}
		std::mem::forget(tree);
		// reopen and look
		match TreeBuilder::with_options(opts).build() {
			Ok(t4) => {
				let r = t4.begin_with_mode(Mode::ReadOnly).unwrap();
				let k1 = r.get(b"k1").unwrap();
				let k2 = r.get(b"k2").unwrap();
				let acked = matches!(ures, Some(Ok(())));
				if k1.is_none() {
					sum.violation(json!({"kind":"acknowledged_commit_lost","key":"k1","parked_at":park_at,"flush_on_close":foc}));
				}
				if acked && k2.is_none() {
					sum.violation(json!({"kind":"acknowledged_commit_lost","key":"k2","parked_at":park_at,"flush_on_close":foc,
						"close": format!("{:?}", close_res)}));
				}
				sum.sample(json!({"parked_at":park_at,"flush_on_close":foc,"commit":format!("{:?}",ures),"close":format!("{:?}",close_res),"k2_after_reopen":k2.is_some()}));
				drop(r);
				let _ = rt.block_on(t4.close());
				std::mem::forget(t4);
			}
			Err(e) => sum.violation(json!({"kind":"reopen_refused","error":e.to_string(),"parked_at":park_at,"flush_on_close":foc})),
		}
	}
	sum.print();
}
