//! C02 / C07 directed scenario: the last commit-log segment does not fit one memtable when it is replayed (the store is
//! reopened with a smaller max_memtable_size, or holds a re-logged batch), so recovery splits it over several memtables
//! and flushes all but the last. Everything acknowledged - before the crash, and after the recovery - must survive the
//! next crash.
//!
//! usage: recovery_split
use std::time::Duration;

use serde_json::json;
use surrealkv::{Mode, Options, TreeBuilder};
use verif_harness::out::Summary;

fn copy_dir(from: &std::path::Path, to: &std::path::Path) {
	std::fs::create_dir_all(to).unwrap();
	for e in std::fs::read_dir(from).unwrap().flatten() {
		let (p, q) = (e.path(), to.join(e.file_name()));
		if p.is_dir() {
			copy_dir(&p, &q);
		} else {
			let _ = std::fs::copy(&p, &q);
		}
	}
}

fn opts(path: &std::path::Path, memtable: usize) -> Options {
	let mut o = Options::new().with_path(path.to_path_buf()).with_max_memtable_size(memtable).with_flush_on_close(false);
	o.level0_max_files = 64;
	o.with_l0_stall_threshold(64).with_memtable_stall_threshold(64)
}

fn main() {
	verif_harness::quiet_panics();
	let mut sum = Summary::new("recovery_split");
	let rt = verif_harness::rt_multi(2);
	let _g = rt.enter();
	for (big, small, n_first, vsize) in [(128 * 1024usize, 32 * 1024usize, 4usize, 20_000usize), (256 * 1024, 64 * 1024, 7, 30_000), (64 * 1024, 32 * 1024, 2, 24_000)] {
		for second_crash in ["crash", "close"] {
			sum.cases += 1;
			let case = json!({"written_with": big, "reopened_with": small, "commits": n_first, "value": vsize, "then": second_crash});
			let base = verif_harness::scratch_dir("rsplit");
			let d1 = base.path().join("gen1");
			let mut expect: Vec<Vec<u8>> = Vec::new();
			{
				let tree = TreeBuilder::with_options(opts(&d1, big)).build().expect("open");
				for i in 0..n_first {
					let mut t = tree.begin().unwrap();
					let k = format!("a{i:03}").into_bytes();
					t.set(k.clone(), vec![i as u8; vsize]).unwrap();
					rt.block_on(t.commit()).expect("commit");
					expect.push(k);
				}
				// crash: the files as they are
				copy_dir(&d1, &base.path().join("gen2"));
				let _ = rt.block_on(tree.close());
			}
			let d2 = base.path().join("gen2");
			let tree = match TreeBuilder::with_options(opts(&d2, small)).build() {
				Ok(t) => t,
				Err(e) => {
					sum.violation(json!({"kind":"reopen_refused","error":e.to_string(),"case":case,"generation":2}));
					continue;
				}
			};
			let st = tree.verif_state();
			let split = !st.tables.is_empty();
			// more acknowledged commits after the recovery
			for i in 0..3 {
				let mut t = tree.begin().unwrap();
				let k = format!("b{i:03}").into_bytes();
				t.set(k.clone(), vec![7u8; 100]).unwrap();
				match rt.block_on(t.commit()) {
					Ok(()) => expect.push(k),
					Err(e) => sum.violation(json!({"kind":"commit_after_recovery_shadowed_or_refused","error":e.to_string(),"case":case})),
				}
			}
			std::thread::sleep(Duration::from_millis(30));
			let d3 = base.path().join("gen3");
			if second_crash == "crash" {
				copy_dir(&d2, &d3);
				let _ = rt.block_on(tree.close());
			} else {
				let _ = rt.block_on(tree.close());
				copy_dir(&d2, &d3);
			}
			match TreeBuilder::with_options(opts(&d3, small)).build() {
				Ok(t3) => {
					let r = t3.begin_with_mode(Mode::ReadOnly).unwrap();
					let missing: Vec<String> = expect.iter().filter(|k| r.get(k.as_slice()).unwrap().is_none()).map(|k| String::from_utf8_lossy(k).to_string()).collect();
					if !missing.is_empty() {
						sum.violation(json!({"kind":"acknowledged_commit_lost","missing":missing,"case":case,"recovery_split_the_segment":split,
							"log_number_after_recovery": st.log_number, "wal_active_after_recovery": st.wal_active}));
					}
					sum.sample(json!({"case":case,"recovery_split_the_segment":split,"missing":missing.len()}));
					drop(r);
					let _ = rt.block_on(t3.close());
				}
				Err(e) => sum.violation(json!({"kind":"reopen_refused","error":e.to_string(),"case":case,"generation":3})),
			}
		}
	}
	sum.print();
}
