//! quick probe: crash images while a store with the version index is being created
use surrealkv::{Options, TreeBuilder};
fn main() {
	let base = verif_harness::scratch_dir("idxc");
	let rt = verif_harness::rt_multi(2);
	let _g = rt.enter();
	let mk = |p: &std::path::Path| Options::new().with_path(p.to_path_buf()).with_enable_vlog(true).with_vlog_value_threshold(0).with_versioning(true, 0).with_versioned_index(true);
	let d = base.path().join("db");
	let t = TreeBuilder::with_options(mk(&d)).build().expect("open");
	let _ = rt.block_on(t.close());
	let idx = d.join("versioned_index").join("index.bpt");
	let data = std::fs::read(&idx).unwrap();
	println!("index.bpt is {} bytes", data.len());
	for cut in [0usize, 1, 100, 4095, 4096, 4097, 6000, 8191, 8192] {
		if cut > data.len() { continue; }
		let img = base.path().join(format!("img{cut}"));
		let _ = std::process::Command::new("cp").arg("-r").arg(&d).arg(&img).status();
		std::fs::write(img.join("versioned_index").join("index.bpt"), &data[..cut]).unwrap();
		match TreeBuilder::with_options(mk(&img)).build() {
			Ok(t) => { println!("cut {cut}: opens"); let _ = rt.block_on(t.close()); }
			Err(e) => println!("cut {cut}: REFUSED {e}"),
		}
	}
}
