//! C14 spec -> implementation: replays checkpoint / restore scenarios exported by TLC from
//! spec/ckpt/CheckpointMC.tla on a real `Tree` and judges every observation with what the PROPERTY
//! prescribes (the ghost state of the spec), never with what the spec's implementation-shaped half predicts.
//!
//! usage: ckpt_run <tlc-export-or-ndjson> [--vlog] [--versioning] [--index] [--cache BYTES] [--block BYTES]
//!                 [--vlog-file BYTES] [--threshold BYTES] [--memtable BYTES] [--no-flush-on-close]
//!                 [--ckpt-open direct|copy] [--no-drain] [--checksum] [--no-final-obs] [--no-attribute]
//!                 [--jobs N] [--limit N] [--timeout SECS]
//!        ckpt_run --worker            (internal: one scenario per stdin line, one result per stdout line)
//!
//! Scenario: {"ops":[{"op":..,"k":..,"kind":..,"v":n,"c":name,"exp":{..}}...], "exp":{..}, "cfg":{..}?}
//!   ops:  Commit k kind(Set|Del) v   - one transaction; v = globally unique value id (never reused, so a value
//!                                      written in a discarded timeline is recognisable)
//!         Rotate | Flush | Compact | Checkpoint c | Restore c | Reopen | Probe | OpenCkpt c
//!   exp:  {"obs":{"latest":{k:v|0}, "dead":[v..], "hmust":{k:[v..]}, "hmay":{k:[v..]}},
//!          "impl":{visible,nextTid,l0,logNum,imm}, "ck":{c:{obs of checkpoint c}}}
//!         latest = what every read must answer; dead = values that are not part of the observed timeline;
//!         hmust/hmay = versions a history read must / may list; impl = conformance values (drift only).
//! Probe / OpenCkpt carry the expectation of the state they observe; the top-level `exp` is that of the state after
//! the last op, which is observed in full: reads of the live store, every checkpoint directory opened as a database,
//! the store closed, reopened and read again. Scenarios that are proper prefixes of other scenarios of the same file
//! are skipped (their observations are embedded in the longer ones).
//!
//! Every scenario runs in a worker child process: a panic is caught there, an abort or a hang (> --timeout) is
//! detected by the parent; all three are violations, never a crash of this tool.
//!
//! A violating scenario is attributed by re-running it with survivors of restore neutralised (see `attribute`):
//! every violation gets `needs` = the neutralisations without which it comes back, or ["unexplained"].

use std::collections::{BTreeMap, BTreeSet, HashSet};
use std::io::{BufRead, BufReader, Write};
use std::path::{Path, PathBuf};
use std::process::{Child, ChildStdin, Command, Stdio};
use std::sync::atomic::{AtomicUsize, Ordering};
use std::sync::{mpsc, Arc, Mutex};
use std::time::{Duration, Instant};

use serde::{Deserialize, Serialize};
use serde_json::{json, Map, Value};
use surrealkv::{LSMIterator, Mode, Options, Tree, TreeBuilder, VLogChecksumLevel};
use verif_harness::keys::{hex, key_bytes};
use verif_harness::out::Summary;

#[derive(Clone, Serialize, Deserialize, Debug)]
#[serde(default)]
struct Cfg {
	vlog: bool,
	versioning: bool,
	index: bool,
	cache: u64,
	block: usize,
	vlog_file: u64,
	threshold: usize,
	memtable: usize,
	levels: u8,
	flush_on_close: bool,
	/// "direct": the checkpoint directory itself is opened as a database; "copy": a copy of it
	ckpt_open: String,
	/// run the clean-up tasks a flush spawns to completion before the next step
	drain: bool,
	checksum: bool,
	/// after the last step also open every checkpoint directory and close + reopen the store
	final_obs: bool,
	/// (attribution only) close + reopen the store right after every restore
	reopen_after_restore: bool,
	/// value size classes (bytes), chosen by value id
	sizes: Vec<usize>,
}

impl Default for Cfg {
	fn default() -> Self {
		Cfg {
			vlog: false,
			versioning: false,
			index: false,
			cache: 1 << 20,
			block: 256,
			vlog_file: 1024,
			threshold: 64,
			memtable: 1 << 20,
			levels: 2,
			flush_on_close: true,
			ckpt_open: "direct".into(),
			drain: true,
			checksum: false,
			final_obs: true,
			reopen_after_restore: false,
			sizes: vec![24, 90, 400, 1500],
		}
	}
}

fn make_opts(cfg: &Cfg, path: &Path) -> Options {
	// Fresh Options for every open: a new process would not share the block cache of the old one.
	let mut o = Options::new()
		.with_path(path.to_path_buf())
		.with_level_count(cfg.levels)
		.with_max_memtable_size(cfg.memtable)
		.with_block_size(cfg.block)
		.with_index_partition_size(64)
		.with_l0_stall_threshold(64)
		.with_memtable_stall_threshold(64)
		.with_block_cache_capacity(cfg.cache)
		.without_compression()
		.with_flush_on_close(cfg.flush_on_close);
	o.level0_max_files = 64; // nothing happens behind the scenario's back
	o = o.with_enable_vlog(cfg.vlog || cfg.versioning).with_vlog_max_file_size(cfg.vlog_file);
	if cfg.versioning {
		o = o.with_versioning(true, 0).with_vlog_value_threshold(0).with_versioned_index(cfg.index);
	} else if cfg.vlog {
		o = o.with_vlog_value_threshold(cfg.threshold);
	}
	if cfg.checksum {
		o = o.with_vlog_checksum_verification(VLogChecksumLevel::Full);
	}
	o
}

/// "<vid>:<key>|" followed by a body determined by (vid, len); the size class is chosen by vid.
fn val_bytes(vid: u64, key: &str, cfg: &Cfg) -> Vec<u8> {
	let len = cfg.sizes[(vid as usize) % cfg.sizes.len()];
	let mut v = format!("{vid}:{key}|").into_bytes();
	let mut x = vid.wrapping_mul(0x9E3779B97F4A7C15) ^ (len as u64) ^ 0x5bd1e995;
	while v.len() < len {
		x ^= x << 13;
		x ^= x >> 7;
		x ^= x << 17;
		v.push((x & 0xff) as u8);
	}
	v
}

/// value bytes -> value id; a value whose bytes are not exactly those written under that id is an error
fn decode_val(b: &[u8], key: &str, cfg: &Cfg) -> Result<u64, String> {
	let p = b.iter().position(|c| *c == b'|').ok_or_else(|| format!("unrecognisable value {}", hex(&b[..b.len().min(24)])))?;
	let head = String::from_utf8_lossy(&b[..p]).to_string();
	let mut parts = head.split(':');
	let vid: u64 = parts.next().and_then(|s| s.parse().ok()).ok_or_else(|| format!("unrecognisable value head {head}"))?;
	let k = parts.next().unwrap_or("");
	if k != key {
		return Err(format!("value {vid} of key {k} returned for key {key}"));
	}
	if val_bytes(vid, key, cfg) != b {
		return Err(format!("value {vid} of key {key} has wrong bytes (len {})", b.len()));
	}
	Ok(vid)
}

#[derive(Default, Debug)]
struct Obs {
	gets: BTreeMap<String, Result<u64, String>>,
	scan_f: Option<Result<BTreeMap<String, u64>, String>>,
	scan_b: Option<Result<BTreeMap<String, u64>, String>>,
	hist: Option<Result<BTreeMap<String, Vec<u64>>, String>>,
}

fn key_name(keys: &[String], b: &[u8]) -> String {
	keys.iter().find(|k| key_bytes(k) == b).cloned().unwrap_or_else(|| format!("?{}", hex(b)))
}

fn scan(tree: &Tree, keys: &[String], cfg: &Cfg, forward: bool) -> Result<BTreeMap<String, u64>, String> {
	let t = tree.begin_with_mode(Mode::ReadOnly).map_err(|e| format!("begin: {e}"))?;
	let mut it = t.range(b"\x00".to_vec(), b"\xff\xff\xff".to_vec()).map_err(|e| format!("range: {e}"))?;
	let mut out = BTreeMap::new();
	let mut ok = if forward {
		it.seek_first()
	} else {
		it.seek_last()
	}
	.map_err(|e| format!("seek: {e}"))?;
	let mut n = 0;
	while ok && it.valid() {
		let kb = it.key().user_key().to_vec();
		let k = key_name(keys, &kb);
		let v = it.value().map_err(|e| format!("value of {k}: {e}"))?;
		let vid = decode_val(&v, &k, cfg)?;
		if out.insert(k.clone(), vid).is_some() {
			return Err(format!("key {k} returned twice"));
		}
		ok = if forward {
			it.next()
		} else {
			it.prev()
		}
		.map_err(|e| format!("step: {e}"))?;
		n += 1;
		if n > 10_000 {
			return Err("cursor does not terminate".into());
		}
	}
	Ok(out)
}

fn history(tree: &Tree, keys: &[String], cfg: &Cfg) -> Result<BTreeMap<String, Vec<u64>>, String> {
	let t = tree.begin_with_mode(Mode::ReadOnly).map_err(|e| format!("begin: {e}"))?;
	let mut it = t.history(b"\x00".to_vec(), b"\xff\xff\xff".to_vec()).map_err(|e| format!("history: {e}"))?;
	let mut out: BTreeMap<String, Vec<u64>> = BTreeMap::new();
	let mut ok = it.seek_first().map_err(|e| format!("seek: {e}"))?;
	let mut n = 0;
	while ok && it.valid() {
		let (kb, tomb) = {
			let kr = it.key();
			(kr.user_key().to_vec(), kr.is_tombstone())
		};
		let k = key_name(keys, &kb);
		if !tomb {
			let v = it.value().map_err(|e| format!("value of {k}: {e}"))?;
			let vid = decode_val(&v, &k, cfg)?;
			out.entry(k).or_default().push(vid);
		}
		ok = it.next().map_err(|e| format!("step: {e}"))?;
		n += 1;
		if n > 100_000 {
			return Err("history cursor does not terminate".into());
		}
	}
	Ok(out)
}

fn observe(tree: &Tree, keys: &[String], cfg: &Cfg) -> Obs {
	let mut o = Obs::default();
	match tree.begin_with_mode(Mode::ReadOnly) {
		Ok(t) => {
			for k in keys {
				let r = match t.get(key_bytes(k)) {
					Ok(None) => Ok(0),
					Ok(Some(b)) => decode_val(&b, k, cfg),
					Err(e) => Err(format!("get: {e}")),
				};
				o.gets.insert(k.clone(), r);
			}
		}
		Err(e) => {
			for k in keys {
				o.gets.insert(k.clone(), Err(format!("begin: {e}")));
			}
		}
	}
	o.scan_f = Some(scan(tree, keys, cfg, true));
	o.scan_b = Some(scan(tree, keys, cfg, false));
	if cfg.versioning {
		o.hist = Some(history(tree, keys, cfg));
	}
	o
}

fn exp_map(v: &Value) -> BTreeMap<String, u64> {
	v.as_object().map(|m| m.iter().map(|(k, x)| (k.clone(), x.as_u64().unwrap_or(0))).collect()).unwrap_or_default()
}

fn exp_sets(v: &Value) -> BTreeMap<String, BTreeSet<u64>> {
	v.as_object()
		.map(|m| {
			m.iter()
				.map(|(k, x)| (k.clone(), x.as_array().map(|a| a.iter().filter_map(|y| y.as_u64()).collect()).unwrap_or_default()))
				.collect()
		})
		.unwrap_or_default()
}

/// The property's judgement of one observation. `want` = key -> value id (0 = absent).
fn judge(obs: &Obs, want: &BTreeMap<String, u64>, exp: &Value, site: &Value, out: &mut Vec<Value>) {
	let dead: HashSet<u64> = exp["dead"].as_array().map(|a| a.iter().filter_map(|x| x.as_u64()).collect()).unwrap_or_default();
	let mk = |kind: &str, via: &str, key: &str, want: Value, got: Value| {
		let mut v = json!({"kind": kind, "via": via, "key": key, "want": want, "got": got});
		for (k, x) in site.as_object().unwrap() {
			v[k] = x.clone();
		}
		v
	};
	let classify = |w: u64, g: u64| -> &'static str {
		if g != 0 && dead.contains(&g) {
			"discarded_value_read"
		} else if g == 0 {
			"committed_value_missing"
		} else if w == 0 {
			"deleted_or_unwritten_key_present"
		} else {
			"wrong_value_read"
		}
	};
	for (k, r) in &obs.gets {
		let w = *want.get(k).unwrap_or(&0);
		match r {
			Ok(g) if *g == w => {}
			Ok(g) => out.push(mk(classify(w, *g), "get", k, json!(w), json!(g))),
			Err(e) => out.push(mk("read_error", "get", k, json!(w), json!(e))),
		}
	}
	let want_present: BTreeMap<String, u64> = want.iter().filter(|(_, v)| **v != 0).map(|(k, v)| (k.clone(), *v)).collect();
	for (via, sc) in [("scan_forward", &obs.scan_f), ("scan_backward", &obs.scan_b)] {
		match sc {
			None => {}
			Some(Err(e)) => out.push(mk("read_error", via, "", json!(want_present), json!(e))),
			Some(Ok(got)) => {
				let keys: BTreeSet<&String> = want_present.keys().chain(got.keys()).collect();
				for k in keys {
					let w = *want_present.get(k).unwrap_or(&0);
					let g = *got.get(k).unwrap_or(&0);
					if w != g {
						out.push(mk(classify(w, g), via, k, json!(w), json!(g)));
					}
				}
			}
		}
	}
	if let Some(h) = &obs.hist {
		let must = exp_sets(&exp["hmust"]);
		let may = exp_sets(&exp["hmay"]);
		match h {
			Err(e) => out.push(mk("read_error", "history", "", json!(must), json!(e))),
			Ok(got) => {
				let keys: BTreeSet<&String> = must.keys().chain(got.keys()).collect();
				for k in keys {
					let g: Vec<u64> = got.get(k).cloned().unwrap_or_default();
					let gs: BTreeSet<u64> = g.iter().copied().collect();
					let empty = BTreeSet::new();
					let mu = must.get(k).unwrap_or(&empty);
					let ma = may.get(k).unwrap_or(&empty);
					if gs.len() != g.len() {
						out.push(mk("history_version_twice", "history", k, json!(mu), json!(g)));
					}
					for x in &gs {
						if mu.contains(x) || ma.contains(x) {
							continue;
						}
						if dead.contains(x) {
							out.push(mk("discarded_value_read", "history", k, json!(mu), json!(g)));
						} else {
							out.push(mk("wrong_value_read", "history", k, json!(mu), json!(g)));
						}
					}
					if mu.iter().any(|x| !gs.contains(x)) {
						out.push(mk("committed_version_missing", "history", k, json!(mu), json!(g)));
					}
				}
			}
		}
	}
}

fn copy_dir(src: &Path, dst: &Path) -> std::io::Result<()> {
	std::fs::create_dir_all(dst)?;
	for e in std::fs::read_dir(src)? {
		let e = e?;
		let (s, d) = (e.path(), dst.join(e.file_name()));
		if s.is_dir() {
			copy_dir(&s, &d)?;
		} else {
			std::fs::copy(&s, &d)?;
		}
	}
	Ok(())
}

struct Run<'a> {
	cfg: &'a Cfg,
	keys: Vec<String>,
	base: PathBuf,
	rt: tokio::runtime::Runtime,
	tree: Option<Tree>,
	restored: bool,
	reopened_after_restore: bool,
	written_after_restore: bool,
	flushed_after_restore: bool,
	viol: Vec<Value>,
	drift: Vec<Value>,
	stats: BTreeMap<String, u64>,
}

impl Run<'_> {
	fn site(&self, step: usize, op: &str, whr: &str) -> Value {
		let phase = if !self.restored {
			"before_restore"
		} else if self.reopened_after_restore {
			"restored_then_reopened"
		} else if self.flushed_after_restore {
			"restored_then_flushed"
		} else if self.written_after_restore {
			"restored_then_written"
		} else {
			"just_restored"
		};
		json!({"step": step, "at": op, "where": whr, "phase": phase})
	}

	fn drain(&self) {
		if self.cfg.drain {
			// spawned WAL clean-ups are plain blocking closures: two turns of the scheduler run them
			self.rt.block_on(async {
				tokio::task::yield_now().await;
				tokio::task::yield_now().await;
			});
		}
	}

	fn open_main(&mut self) -> Result<(), String> {
		let _g = self.rt.enter();
		let t = TreeBuilder::with_options(make_opts(self.cfg, &self.base.join("db"))).build().map_err(|e| e.to_string())?;
		self.tree = Some(t);
		Ok(())
	}

	fn engine(&mut self, step: usize, op: &str, kind: &str, e: String) {
		let mut v = self.site(step, op, "main");
		v["kind"] = json!(kind);
		v["error"] = json!(e);
		self.viol.push(v);
	}

	fn count(&mut self, k: &str) {
		*self.stats.entry(k.to_string()).or_insert(0) += 1;
	}

	fn probe_main(&mut self, step: usize, op: &str, exp: &Value) {
		let obs = observe(self.tree.as_ref().unwrap(), &self.keys, self.cfg);
		let site = self.site(step, op, "main");
		let want = exp_map(&exp["obs"]["latest"]);
		let mut out = Vec::new();
		judge(&obs, &want, &exp["obs"], &site, &mut out);
		self.viol.extend(out);
		self.count("probes");
		// conformance with the spec's implementation-shaped half: drift only, never a verdict
		if let Some(im) = exp["impl"].as_object() {
			let st = self.tree.as_ref().unwrap().verif_state();
			let l0 = st.tables.iter().filter(|t| t.level == 0).count() as u64;
			for (name, real) in
				[("visible", st.visible_seq), ("nextTid", st.next_table_id), ("l0", l0), ("logNum", st.log_number),
					("imm", st.immutables.len() as u64)]
			{
				if let Some(spec) = im.get(name).and_then(|x| x.as_u64()) {
					self.count("conformance_checks");
					if spec != real {
						self.drift.push(json!({"kind": format!("impl_{name}"), "spec": spec, "impl": real, "step": step}));
					}
				}
			}
		}
	}

	fn probe_ckpt(&mut self, step: usize, id: &str, exp: &Value) {
		let src = self.base.join(format!("ck_{id}"));
		let dir = if self.cfg.ckpt_open == "copy" {
			let d = self.base.join(format!("oc{id}_{step}"));
			if let Err(e) = copy_dir(&src, &d) {
				self.engine(step, "OpenCkpt", "tool_copy_failed", e.to_string());
				return;
			}
			d
		} else {
			src
		};
		let mut site = self.site(step, "OpenCkpt", "checkpoint_dir");
		site["ckpt_open"] = json!(self.cfg.ckpt_open);
		let opened = {
			let _g = self.rt.enter();
			TreeBuilder::with_options(make_opts(self.cfg, &dir)).build()
		};
		match opened {
			Err(e) => {
				let mut v = site.clone();
				v["kind"] = json!("checkpoint_does_not_open");
				v["error"] = json!(e.to_string());
				self.viol.push(v);
			}
			Ok(t) => {
				let obs = observe(&t, &self.keys, self.cfg);
				// exp.obs = what was committed when the checkpoint was taken
				let want = exp_map(&exp["obs"]["latest"]);
				let mut out = Vec::new();
				judge(&obs, &want, &exp["obs"], &site, &mut out);
				self.viol.extend(out);
				if let Err(e) = self.rt.block_on(t.close()) {
					let mut v = site.clone();
					v["kind"] = json!("checkpoint_close_error");
					v["error"] = json!(e.to_string());
					self.viol.push(v);
				}
				drop(t);
				self.count("ckpt_opens");
			}
		}
		if self.cfg.ckpt_open == "copy" {
			let _ = std::fs::remove_dir_all(&dir);
		}
	}

	fn step(&mut self, i: usize, op: &Value) -> Result<(), String> {
		let name = op["op"].as_str().unwrap_or("");
		let id = op["id"].as_u64().unwrap_or(0);
		let c = op["c"].as_str().unwrap_or("").to_string();
		let _g = self.rt.handle().clone();
		let _e = _g.enter();
		self.count(&format!("op_{name}"));
		match name {
			"Commit" => {
				let k = op["k"].as_str().unwrap_or("");
				let vid = op["v"].as_u64().unwrap_or(0);
				let tree = self.tree.as_ref().unwrap();
				let mut t = match tree.begin() {
					Ok(t) => t,
					Err(e) => {
						self.engine(i, name, "commit_refused", format!("begin: {e}"));
						return Err("stop".into());
					}
				};
				let r = match op["kind"].as_str().unwrap_or("Set") {
					"Del" => t.delete(key_bytes(k)),
					_ => t.set(key_bytes(k), val_bytes(vid, k, self.cfg)),
				};
				if let Err(e) = r {
					self.engine(i, name, "commit_refused", format!("write: {e}"));
					return Err("stop".into());
				}
				if let Err(e) = self.rt.block_on(t.commit()) {
					self.engine(i, name, "commit_refused", e.to_string());
					return Err("stop".into());
				}
				if self.restored {
					self.written_after_restore = true;
				}
			}
			"Flush" => {
				if let Err(e) = self.tree.as_ref().unwrap().verif_flush() {
					self.engine(i, name, "flush_error", e.to_string());
					return Err("stop".into());
				}
				if self.restored && self.written_after_restore {
					self.flushed_after_restore = true;
				}
			}
			"Rotate" => {
				if let Err(e) = self.tree.as_ref().unwrap().verif_rotate() {
					self.engine(i, name, "rotate_error", e.to_string());
					return Err("stop".into());
				}
			}
			"Compact" => {
				if let Err(e) = self.tree.as_ref().unwrap().verif_compact(id as u8) {
					self.engine(i, name, "compaction_error", e.to_string());
					return Err("stop".into());
				}
			}
			"Checkpoint" => {
				let dir = self.base.join(format!("ck_{c}"));
				if let Err(e) = self.tree.as_ref().unwrap().create_checkpoint(&dir) {
					self.engine(i, name, "checkpoint_error", e.to_string());
					return Err("stop".into());
				}
			}
			"Restore" => {
				let dir = self.base.join(format!("ck_{c}"));
				if let Err(e) = self.tree.as_ref().unwrap().restore_from_checkpoint(&dir) {
					self.engine(i, name, "restore_error", e.to_string());
					return Err("stop".into());
				}
				self.restored = true;
				self.reopened_after_restore = false;
				self.written_after_restore = false;
				self.flushed_after_restore = false;
				if self.cfg.reopen_after_restore {
					let t = self.tree.take().unwrap();
					if let Err(e) = self.rt.block_on(t.close()) {
						self.engine(i, name, "close_error", e.to_string());
						return Err("stop".into());
					}
					drop(t);
					if let Err(e) = self.open_main() {
						self.engine(i, name, "reopen_refused", e);
						return Err("stop".into());
					}
				}
			}
			"Reopen" => {
				let t = self.tree.take().unwrap();
				if let Err(e) = self.rt.block_on(t.close()) {
					self.engine(i, name, "close_error", e.to_string());
					return Err("stop".into());
				}
				drop(t);
				if let Err(e) = self.open_main() {
					self.engine(i, name, "reopen_refused", e);
					return Err("stop".into());
				}
				if self.restored {
					self.reopened_after_restore = true;
				}
			}
			"Probe" => self.probe_main(i, name, &op["exp"]),
			// self-test of the pool (never exported by the spec): the tool must report these, not die of them
			"__panic" => panic!("self-test panic"),
			"__abort" => std::process::abort(),
			"__hang" => loop {
				std::thread::sleep(Duration::from_secs(1));
			},
			"OpenCkpt" => self.probe_ckpt(i, &c, &op["exp"]),
			other => return Err(format!("unknown op {other}")),
		}
		self.drain();
		Ok(())
	}
}

fn scenario_keys(sc: &Value) -> Vec<String> {
	let mut ks: BTreeSet<String> = BTreeSet::new();
	if let Some(m) = sc["exp"]["obs"]["latest"].as_object() {
		ks.extend(m.keys().cloned());
	}
	for op in sc["ops"].as_array().into_iter().flatten() {
		if let Some(k) = op["k"].as_str() {
			if !k.is_empty() {
				ks.insert(k.to_string());
			}
		}
	}
	ks.into_iter().collect()
}

fn run_scenario(sc: &Value, cfg: &Cfg) -> Result<(Vec<Value>, Vec<Value>, BTreeMap<String, u64>), String> {
	let dir = verif_harness::scratch_dir("ckpt");
	let mut run = Run {
		cfg,
		keys: scenario_keys(sc),
		base: dir.path().to_path_buf(),
		rt: verif_harness::rt(),
		tree: None,
		restored: false,
		reopened_after_restore: false,
		written_after_restore: false,
		flushed_after_restore: false,
		viol: Vec::new(),
		drift: Vec::new(),
		stats: BTreeMap::new(),
	};
	if let Err(e) = make_opts(cfg, &run.base.join("db")).validate() {
		return Err(format!("driver configuration rejected by Options::validate: {e}"));
	}
	run.open_main().map_err(|e| format!("initial open failed: {e}"))?;
	let ops = sc["ops"].as_array().cloned().unwrap_or_default();
	let mut stopped = false;
	for (i, op) in ops.iter().enumerate() {
		match run.step(i, op) {
			Ok(()) => {}
			Err(e) if e == "stop" => {
				stopped = true;
				break;
			}
			Err(e) => return Err(e),
		}
	}
	if !stopped && run.tree.is_some() && sc["exp"].is_object() {
		// the state after the last step is observed in full: reads of the live store, every checkpoint
		// directory opened as a database, and the store closed and reopened
		let exp = &sc["exp"];
		run.probe_main(ops.len(), "end", exp);
		if cfg.final_obs {
			if let Some(cks) = exp["ck"].as_object() {
				for (c, e) in cks {
					run.probe_ckpt(ops.len(), c, &json!({"obs": e}));
				}
			}
			let reopen = json!({"op": "Reopen"});
			if run.step(ops.len(), &reopen).is_ok() {
				run.probe_main(ops.len(), "end_reopened", &json!({"obs": exp["obs"]}));
			}
		}
	}
	if let Some(t) = run.tree.take() {
		let _g = run.rt.enter();
		let _ = run.rt.block_on(t.close());
		drop(t);
	}
	Ok((run.viol, run.drift, run.stats))
}

// ------------------------------------------------------------------------------------------------
// worker side

/// What restore leaves alive in the process (or what the scenario does around it) can be taken out of
/// the picture one by one: the configuration changes below each neutralise one such survivor.
const NEUTRALISERS: [&str; 6] =
	["version_index", "block_cache", "checkpoint_opened_in_place", "deferred_wal_cleanup", "value_log", "live_process"];

fn neutralised(base: &Cfg, sc: &Value, set: &[&str]) -> Cfg {
	let mut c = base.clone();
	for n in set {
		match *n {
			// nothing fits into a cache of one byte
			"block_cache" => c.cache = 1,
			"checkpoint_opened_in_place" => c.ckpt_open = "copy".into(),
			"deferred_wal_cleanup" => c.drain = true,
			"value_log" => c.vlog = false,
			"version_index" => c.index = false,
			// close + reopen right after every restore: nothing of the old process survives
			"live_process" => c.reopen_after_restore = true,
			_ => {}
		}
	}
	let _ = sc;
	c
}

fn applicable(base: &Cfg, sc: &Value) -> Vec<&'static str> {
	let has_open = sc["ops"].as_array().map(|a| a.iter().any(|o| o["op"] == "OpenCkpt" || o["op"] == "Checkpoint")).unwrap_or(false);
	let has_restore = sc["ops"].as_array().map(|a| a.iter().any(|o| o["op"] == "Restore")).unwrap_or(false);
	NEUTRALISERS
		.iter()
		.copied()
		.filter(|n| match *n {
			"block_cache" => base.cache > 1,
			"checkpoint_opened_in_place" => base.ckpt_open == "direct" && has_open,
			"deferred_wal_cleanup" => !base.drain,
			// versioning cannot do without the value log (and a history read cannot do without versioning)
			"value_log" => base.vlog && !base.versioning,
			"live_process" => !base.reopen_after_restore && has_restore,
			"version_index" => base.versioning && base.index,
			_ => false,
		})
		.collect()
}

/// identity of a violation inside its scenario
fn vkey(v: &Value) -> String {
	format!(
		"{}|{}|{}|{}|{}|{}",
		v["step"], v["at"].as_str().unwrap_or(""), v["where"].as_str().unwrap_or(""), v["via"].as_str().unwrap_or(""),
		v["key"].as_str().unwrap_or(""), v["kind"].as_str().unwrap_or("")
	)
}

fn violation_keys(sc: &Value, cfg: &Cfg) -> HashSet<String> {
	match verif_harness::catch(|| run_scenario(sc, cfg)) {
		Ok(Ok((viol, _, _))) => viol.iter().map(vkey).collect(),
		Ok(Err(_)) => HashSet::new(),
		Err(_) => ["-1||main|||panic".to_string()].into_iter().collect(),
	}
}

/// Differential attribution: the SAME scenario is re-run on the real code with survivors of restore
/// neutralised. (1) With all of them neutralised: what still fails is "unexplained". (2) A minimal
/// sufficient set S is found by dropping neutralisations one by one (the broad ones first) as long as
/// every explainable violation stays away. (3) A violation needs those members of S without which it
/// comes back (all of S if it comes back for none alone).
fn attribute(sc: &Value, cfg: &Cfg, viol: &mut [Value]) {
	let all = applicable(cfg, sc);
	let base: HashSet<String> = viol.iter().map(vkey).collect();
	let with_all = if all.is_empty() { base.clone() } else { violation_keys(sc, &neutralised(cfg, sc, &all)) };
	let explainable: HashSet<String> = base.iter().filter(|k| !with_all.contains(*k)).cloned().collect();
	let mut needs: BTreeMap<String, Vec<String>> = BTreeMap::new();
	if !explainable.is_empty() {
		let order = ["live_process", "value_log", "deferred_wal_cleanup", "checkpoint_opened_in_place", "block_cache", "version_index"];
		let mut set: Vec<&str> = all.clone();
		for n in order {
			if !set.contains(&n) || set.len() == 1 {
				continue;
			}
			let without: Vec<&str> = set.iter().copied().filter(|x| *x != n).collect();
			let keys = violation_keys(sc, &neutralised(cfg, sc, &without));
			if explainable.iter().all(|k| !keys.contains(k)) {
				set = without;
			}
		}
		if set.len() == 1 {
			for k in &explainable {
				needs.insert(k.clone(), vec![set[0].to_string()]);
			}
		} else {
			for n in &set {
				let without: Vec<&str> = set.iter().copied().filter(|x| x != n).collect();
				let keys = violation_keys(sc, &neutralised(cfg, sc, &without));
				for k in explainable.iter().filter(|k| keys.contains(*k)) {
					needs.entry(k.clone()).or_default().push(n.to_string());
				}
			}
			for k in &explainable {
				needs.entry(k.clone()).or_insert_with(|| set.iter().map(|x| x.to_string()).collect());
			}
		}
	}
	for v in viol.iter_mut() {
		let n = needs.get(&vkey(v)).cloned().unwrap_or_else(|| vec!["unexplained".to_string()]);
		v["needs"] = json!(n);
	}
}

fn worker() {
	verif_harness::quiet_panics();
	let stdin = std::io::stdin();
	let stdout = std::io::stdout();
	for line in stdin.lock().lines() {
		let line = match line {
			Ok(l) => l,
			Err(_) => break,
		};
		if line.trim().is_empty() {
			continue;
		}
		let job: Value = serde_json::from_str(&line).expect("job");
		let cfg: Cfg = serde_json::from_value(job["cfg"].clone()).expect("cfg");
		let sc = &job["sc"];
		let res = verif_harness::catch(|| run_scenario(sc, &cfg));
		let (mut viol, drift, stats, tool) = match res {
			Ok(Ok((viol, drift, stats))) => (viol, drift, stats, None),
			Ok(Err(e)) => (Vec::new(), Vec::new(), BTreeMap::new(), Some(e)),
			Err(p) => (
				vec![json!({"kind": "panic", "message": p, "where": "main", "phase": "?", "step": -1})],
				Vec::new(),
				BTreeMap::new(),
				None,
			),
		};
		if !viol.is_empty() && job["attribute"].as_bool().unwrap_or(true) {
			attribute(sc, &cfg, &mut viol);
		}
		let reply = match tool {
			Some(e) => json!({"id": job["id"], "tool_error": e}),
			None => json!({"id": job["id"], "viol": viol, "drift": drift, "stats": stats}),
		};
		let mut o = stdout.lock();
		let _ = writeln!(o, "{}", reply);
		let _ = o.flush();
	}
}

// ------------------------------------------------------------------------------------------------
// parent side

struct Worker {
	child: Child,
	stdin: ChildStdin,
	rx: mpsc::Receiver<Option<String>>,
}

fn spawn_worker() -> Worker {
	let exe = std::env::current_exe().expect("current_exe");
	let mut child = Command::new(exe)
		.arg("--worker")
		.stdin(Stdio::piped())
		.stdout(Stdio::piped())
		.stderr(Stdio::null())
		.env("RUST_BACKTRACE", "0")
		.spawn()
		.expect("spawn worker");
	let stdin = child.stdin.take().unwrap();
	let stdout = child.stdout.take().unwrap();
	let (tx, rx) = mpsc::channel();
	std::thread::spawn(move || {
		for line in BufReader::new(stdout).lines() {
			match line {
				Ok(l) => {
					if tx.send(Some(l)).is_err() {
						return;
					}
				}
				Err(_) => break,
			}
		}
		let _ = tx.send(None);
	});
	Worker {
		child,
		stdin,
		rx,
	}
}

fn op_key(op: &Value) -> String {
	format!(
		"{}/{}/{}/{}/{}",
		op["op"].as_str().unwrap_or(""),
		op["k"].as_str().unwrap_or(""),
		op["kind"].as_str().unwrap_or(""),
		op["v"].as_u64().unwrap_or(0),
		op["c"].as_str().unwrap_or("")
	)
}

fn main() {
	let args: Vec<String> = std::env::args().collect();
	if args.iter().any(|a| a == "--worker") {
		worker();
		return;
	}
	if args.len() < 2 {
		eprintln!("usage: ckpt_run <file> [options]   (see the head of harness/src/bin/ckpt_run.rs)");
		std::process::exit(2);
	}
	let argval = |name: &str| args.iter().position(|a| a == name).and_then(|i| args.get(i + 1)).cloned();
	let flag = |name: &str| args.iter().any(|a| a == name);
	let mut cfg = Cfg::default();
	cfg.vlog = flag("--vlog");
	cfg.versioning = flag("--versioning");
	cfg.index = flag("--index");
	cfg.checksum = flag("--checksum");
	cfg.flush_on_close = !flag("--no-flush-on-close");
	cfg.drain = !flag("--no-drain");
	cfg.final_obs = !flag("--no-final-obs");
	if let Some(v) = argval("--cache") {
		cfg.cache = v.parse().unwrap();
	}
	if let Some(v) = argval("--block") {
		cfg.block = v.parse().unwrap();
	}
	if let Some(v) = argval("--vlog-file") {
		cfg.vlog_file = v.parse().unwrap();
	}
	if let Some(v) = argval("--threshold") {
		cfg.threshold = v.parse().unwrap();
	}
	if let Some(v) = argval("--memtable") {
		cfg.memtable = v.parse().unwrap();
	}
	if let Some(v) = argval("--ckpt-open") {
		cfg.ckpt_open = v;
	}
	let jobs: usize = argval("--jobs").map(|s| s.parse().unwrap()).unwrap_or(8);
	let limit: usize = argval("--limit").map(|s| s.parse().unwrap()).unwrap_or(usize::MAX);
	let timeout = Duration::from_secs(argval("--timeout").map(|s| s.parse().unwrap()).unwrap_or(60));
	let do_attr = !flag("--no-attribute");

	let f = std::fs::File::open(&args[1]).unwrap_or_else(|e| {
		eprintln!("cannot open {}: {e}", args[1]);
		std::process::exit(2)
	});
	let mut scenarios: Vec<Value> = Vec::new();
	for line in BufReader::new(f).lines() {
		let line = line.unwrap();
		let text: String = if line.starts_with("\"REPLAY ") {
			let s: String = serde_json::from_str(&line).unwrap();
			s["REPLAY ".len()..].to_string()
		} else if line.starts_with('{') {
			line
		} else {
			continue;
		};
		scenarios.push(serde_json::from_str(&text).unwrap());
	}
	let exported = scenarios.len();
	// drop scenarios that are proper prefixes of (or equal to) others: their observations are embedded
	let seqs: Vec<Vec<String>> =
		scenarios.iter().map(|s| s["ops"].as_array().map(|a| a.iter().map(op_key).collect()).unwrap_or_default()).collect();
	let mut prefixes: HashSet<String> = HashSet::new();
	for s in &seqs {
		let mut acc = String::new();
		for (i, o) in s.iter().enumerate() {
			acc.push_str(o);
			acc.push(';');
			if i + 1 < s.len() {
				prefixes.insert(acc.clone());
			}
		}
	}
	let mut seen: HashSet<String> = HashSet::new();
	let mut todo: Vec<Value> = Vec::new();
	for (s, sc) in seqs.iter().zip(scenarios) {
		let full: String = s.iter().map(|o| format!("{o};")).collect();
		// a custom cfg makes the scenario distinct
		let tag = format!("{full}|{}", sc.get("cfg").map(|c| c.to_string()).unwrap_or_default());
		if prefixes.contains(&full) && sc.get("cfg").is_none() {
			continue;
		}
		if seen.insert(tag) {
			todo.push(sc);
		}
	}
	todo.truncate(limit);
	let todo = Arc::new(todo);
	let sum = Arc::new(Mutex::new(Summary::new("ckpt_run")));
	let next = Arc::new(AtomicUsize::new(0));
	let tool_errors = Arc::new(Mutex::new(Vec::<String>::new()));
	let t0 = Instant::now();
	let mut hs = Vec::new();
	for _ in 0..jobs.min(todo.len().max(1)) {
		let (todo, sum, next, cfg, tool_errors) = (todo.clone(), sum.clone(), next.clone(), cfg.clone(), tool_errors.clone());
		hs.push(std::thread::spawn(move || {
			let mut w = spawn_worker();
			loop {
				let i = next.fetch_add(1, Ordering::SeqCst);
				if i >= todo.len() {
					break;
				}
				let sc = &todo[i];
				let c: Cfg = match sc.get("cfg") {
					Some(c) => serde_json::from_value(c.clone()).unwrap_or_else(|_| cfg.clone()),
					None => cfg.clone(),
				};
				let cfgv = serde_json::to_value(&c).unwrap();
				let job = json!({"id": i, "cfg": cfgv, "sc": sc, "attribute": do_attr});
				let sent = writeln!(w.stdin, "{}", job).and_then(|_| w.stdin.flush());
				let reply = if sent.is_err() {
					Ok(None)
				} else {
					w.rx.recv_timeout(timeout).map_err(|_| ())
				};
				let nops = sc["ops"].as_array().map(|a| a.len()).unwrap_or(0) as u64;
				let with_sc = |mut v: Value| {
					let mut s2 = sc.clone();
					s2["cfg"] = cfgv.clone();
					v["scenario"] = s2;
					v["vlog"] = json!(c.vlog || c.versioning);
					v["versioning"] = json!(c.versioning);
					v["index"] = json!(c.versioning && c.index);
					v["drain"] = json!(c.drain);
					v
				};
				let mut s = sum.lock().unwrap();
				s.cases += 1;
				s.steps += nops;
				if i % 997 == 0 {
					s.sample(json!({"ops": sc["ops"].as_array().map(|a| a.iter().map(op_key).collect::<Vec<_>>()), "exp": sc["exp"]}));
				}
				match reply {
					Ok(Some(line)) => {
						let r: Value = serde_json::from_str(&line).unwrap_or(json!({"tool_error": format!("bad reply {line}")}));
						if let Some(e) = r["tool_error"].as_str() {
							tool_errors.lock().unwrap().push(e.to_string());
						}
						for mut v in r["viol"].as_array().cloned().unwrap_or_default() {
							// bucket = what the violation needs + its symptom: every bucket keeps examples
							let symptom = v["kind"].as_str().unwrap_or("?").to_string();
							let needs: Vec<String> = v["needs"]
								.as_array()
								.map(|a| a.iter().filter_map(|x| x.as_str().map(String::from)).collect())
								.unwrap_or_else(|| vec!["unattributed".into()]);
							v["symptom"] = json!(symptom);
							v["kind"] = json!(format!("{}:{}", needs.join("+"), symptom));
							let bucket = v["kind"].as_str().unwrap().to_string();
							for (field, dflt) in [("buckets", json!({})), ("examples", json!({}))] {
								if !s.extra.contains_key(field) {
									s.extra.insert(field.into(), dflt);
								}
							}
							let cur = s.extra["buckets"].get(&bucket).and_then(|x| x.as_u64()).unwrap_or(0);
							s.extra.get_mut("buckets").unwrap()[&bucket] = json!(cur + 1);
							let shorter = match s.extra["examples"].get(&bucket) {
								None => true,
								Some(old) => old["scenario"]["ops"].as_array().map(|a| a.len()).unwrap_or(0) as u64 > nops,
							};
							let full = with_sc(v);
							if shorter {
								s.extra.get_mut("examples").unwrap()[&bucket] = full.clone();
							}
							if cur < 1 {
								s.violation(full);
							} else {
								s.violation_count += 1;
							}
						}
						for mut v in r["drift"].as_array().cloned().unwrap_or_default() {
							v["ops"] = json!(sc["ops"].as_array().map(|a| a.iter().map(op_key).collect::<Vec<_>>()));
							s.drift(v);
						}
						if let Some(st) = r["stats"].as_object() {
							for (k, n) in st {
								let cur = s.extra.get(k).and_then(|x| x.as_u64()).unwrap_or(0);
								s.extra.insert(k.clone(), json!(cur + n.as_u64().unwrap_or(0)));
							}
						}
					}
					Ok(None) => {
						// the worker died: abort / stack overflow / killed
						let status = w.child.wait().map(|st| st.to_string()).unwrap_or_default();
						s.violation(with_sc(json!({"kind": "unattributed:abort", "symptom": "abort", "needs": ["unattributed"],
							"status": status, "where": "main", "phase": "?"})));
						drop(s);
						w = spawn_worker();
					}
					Err(()) => {
						let _ = w.child.kill();
						let _ = w.child.wait();
						s.violation(with_sc(json!({"kind": "unattributed:hang", "symptom": "hang", "needs": ["unattributed"],
							"timeout_s": timeout.as_secs(), "where": "main", "phase": "?"})));
						drop(s);
						w = spawn_worker();
					}
				}
			}
			drop(w.stdin);
			let _ = w.child.wait();
		}));
	}
	for h in hs {
		let _ = h.join();
	}
	let mut s = sum.lock().unwrap();
	s.extra.insert("exported".into(), json!(exported));
	s.extra.insert("cfg".into(), serde_json::to_value(&cfg).unwrap());
	s.extra.insert("run_wall_s".into(), json!(t0.elapsed().as_secs_f64()));
	let te = tool_errors.lock().unwrap();
	if !te.is_empty() {
		eprintln!("tool errors: {:?}", &te[..te.len().min(3)]);
		s.extra.insert("tool_errors".into(), json!(te.len()));
		s.extra.insert("tool_error_example".into(), json!(te[0]));
	}
	s.print();
	let _ = Map::<String, Value>::new();
}
