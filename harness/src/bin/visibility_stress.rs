//! C05 (and C01/C06) hook-free stress: acknowledged commits are visible to every transaction begun afterwards, also
//! while memtables rotate, flush and compact underneath.
//!
//! usage: visibility_stress [--commits N] [--readers N] [--memtable BYTES] [--seed N] [--committers N]
//! Committer c writes key "c<c>-<i % KS.load(Ordering::Relaxed)>" = i and the shared key "last<c>" = i in ONE transaction, then publishes i in an
//! atomic. Readers: a = atomic (acknowledged), begin, then
//!   get("last<c>") >= a                       (real time: an acknowledged commit is visible to a later begin)
//!   get("c<c>-<x % KS.load(Ordering::Relaxed)>") == x for x = the value read from "last<c>"   (atomic: both keys of one transaction)
//!   a second get("last<c>") in the same transaction == the first        (stable snapshot)
//!   a range scan sees "last<c>" with the same value
//! Tiny memtables + low L0 trigger keep rotation / flush / compaction running all the time.
use std::sync::atomic::{AtomicBool, AtomicU64, Ordering};
use std::sync::{Arc, Mutex};

use serde_json::json;
use surrealkv::{LSMIterator, Mode, Options, TreeBuilder};
use verif_harness::out::Summary;

static KS: AtomicU64 = AtomicU64::new(64);

fn num(v: &[u8]) -> u64 {
	String::from_utf8_lossy(&v[..v.iter().position(|b| *b == b'|').unwrap_or(v.len())]).parse().unwrap_or(u64::MAX)
}
fn val(i: u64, pad: usize) -> Vec<u8> {
	let mut v = format!("{i}|").into_bytes();
	v.resize(v.len() + pad, b'.');
	v
}

fn main() {
	let args: Vec<String> = std::env::args().collect();
	let argval = |name: &str| args.iter().position(|a| a == name).and_then(|i| args.get(i + 1)).cloned();
	let commits: u64 = argval("--commits").map(|s| s.parse().unwrap()).unwrap_or(4000);
	let readers: usize = argval("--readers").map(|s| s.parse().unwrap()).unwrap_or(4);
	let committers: usize = argval("--committers").map(|s| s.parse().unwrap()).unwrap_or(2);
	let memtable: usize = argval("--memtable").map(|s| s.parse().unwrap()).unwrap_or(64 * 1024);
	KS.store(argval("--keyspace").map(|s| s.parse().unwrap()).unwrap_or(64), Ordering::Relaxed);
	verif_harness::quiet_panics();
	let mut sum = Summary::new("visibility_stress");
	let dir = verif_harness::scratch_dir("vis");
	let rt = verif_harness::rt_multi(4);
	let _g = rt.enter();
	let mut opts = Options::new().with_path(dir.path().to_path_buf()).with_max_memtable_size(memtable).with_level_count(3);
	let numarg = |name: &str, d: u64| argval(name).map(|s| s.parse().unwrap()).unwrap_or(d);
	opts.level0_max_files = numarg("--l0-trigger", 2) as usize;
	opts.max_bytes_for_level = numarg("--level-bytes", opts.max_bytes_for_level);
	let (l0_stall, imm_stall) = (numarg("--l0-stall", 8) as usize, numarg("--imm-stall", 3) as usize);
	let opts = opts.with_l0_stall_threshold(l0_stall).with_memtable_stall_threshold(imm_stall);
	if let Err(e) = opts.validate() {
		eprintln!("invalid options: {e}");
		std::process::exit(2);
	}
	let tree = TreeBuilder::with_options(opts).build().expect("open");
	let acked: Arc<Vec<AtomicU64>> = Arc::new((0..committers).map(|_| AtomicU64::new(0)).collect());
	let stop = Arc::new(AtomicBool::new(false));
	let viol: Arc<Mutex<Vec<serde_json::Value>>> = Arc::new(Mutex::new(Vec::new()));
	let reads = Arc::new(AtomicU64::new(0));
	let mut hs = Vec::new();
	for c in 0..committers {
		let (tree, acked, viol) = (tree.clone(), acked.clone(), viol.clone());
		hs.push(std::thread::spawn(move || {
			let rt = verif_harness::rt();
			for i in 1..=commits {
				let mut t = tree.begin().unwrap();
				t.set(format!("c{c}-{}", i % KS.load(Ordering::Relaxed)).into_bytes(), val(i, 700)).unwrap();
				t.set(format!("last{c}").into_bytes(), val(i, 0)).unwrap();
				match rt.block_on(t.commit()) {
					Ok(()) => acked[c].store(i, Ordering::SeqCst),
					Err(e) => {
						viol.lock().unwrap().push(json!({"kind":"commit_error","error":e.to_string(),"i":i}));
						break;
					}
				}
			}
			drop(tree);
		}));
	}
	let mut rs = Vec::new();
	for r in 0..readers {
		let (tree, acked, stop, viol, reads) = (tree.clone(), acked.clone(), stop.clone(), viol.clone(), reads.clone());
		rs.push(std::thread::spawn(move || {
			let mut n = 0u64;
			while !stop.load(Ordering::SeqCst) {
				let c = (n as usize + r) % acked.len();
				n += 1;
				let a = acked[c].load(Ordering::SeqCst);
				let t = tree.begin_with_mode(Mode::ReadOnly).unwrap();
				let lk = format!("last{c}").into_bytes();
				let res = (|| -> Result<(), serde_json::Value> {
					let x = match t.get(lk.clone()).map_err(|e| json!({"kind":"get_error","error":e.to_string()}))? {
						Some(v) => num(&v),
						None => 0,
					};
					if x < a {
						return Err(json!({"kind":"acknowledged_commit_not_visible","acked":a,"saw":x,"committer":c}));
					}
					if x > 0 {
						let k = format!("c{c}-{}", x % KS.load(Ordering::Relaxed)).into_bytes();
						let y = t.get(k).map_err(|e| json!({"kind":"get_error","error":e.to_string()}))?.map(|v| num(&v)).unwrap_or(0);
						if y != x {
							return Err(json!({"kind":"not_a_prefix_of_commit_order","detail":"two keys of one transaction disagree","last":x,"other":y,"committer":c}));
						}
					}
					let x2 = t.get(lk.clone()).map_err(|e| json!({"kind":"get_error","error":e.to_string()}))?.map(|v| num(&v)).unwrap_or(0);
					if x2 != x {
						return Err(json!({"kind":"snapshot_changed","first":x,"second":x2}));
					}
					if n % 8 == 0 {
						let mut it = t.range(lk.clone(), format!("last{c}~").into_bytes()).map_err(|e| json!({"kind":"range_error","error":e.to_string()}))?;
						let ok = it.seek_first().map_err(|e| json!({"kind":"range_error","error":e.to_string()}))?;
						let z = if ok && it.valid() { num(&it.value().map_err(|e| json!({"kind":"range_error","error":e.to_string()}))?) } else { 0 };
						if z != x {
							return Err(json!({"kind":"scan_differs_from_get","get":x,"scan":z}));
						}
					}
					Ok(())
				})();
				if let Err(v) = res {
					let mut g = viol.lock().unwrap();
					if g.len() < 200 {
						g.push(v);
					}
				}
				reads.fetch_add(1, Ordering::Relaxed);
			}
			drop(tree);
		}));
	}
	// watchdog: the committers must keep making progress (a stalled pipeline is a violation, not a hung tool)
	{
		let (acked, reads, viol, wtree) = (acked.clone(), reads.clone(), viol.clone(), tree.clone());
		let committers_n = committers;
		std::thread::spawn(move || {
			let mut last = 0u64;
			let mut idle = 0;
			loop {
				std::thread::sleep(std::time::Duration::from_secs(2));
				let now = (acked.iter().map(|a| a.load(Ordering::SeqCst)).sum::<u64>(), reads.load(Ordering::Relaxed));
				if now.0 >= commits * committers_n as u64 {
					return;
				}
				idle = if now.0 == last { idle + 1 } else { 0 };
				last = now.0;
				if idle >= 10 {
					// the state readout takes the tree's locks: never let it hang the report
					let (tx, rx) = std::sync::mpsc::channel();
					let t2 = wtree.clone();
					std::thread::spawn(move || {
						let _ = tx.send(t2.verif_state());
					});
					let st = rx.recv_timeout(std::time::Duration::from_secs(3)).unwrap_or_default();
					let mut s = Summary::new("visibility_stress");
					for v in viol.lock().unwrap().drain(..) {
						s.violation(v);
					}
					s.violation(json!({"kind":"commit_never_returns","detail":"no commit() returned for 20 s while committers were inside commit()",
						"acked": now.0, "reads": now.1, "immutables": st.immutables.len(), "l0_tables": st.tables.iter().filter(|t| t.level == 0).count(),
						"tables_per_level": (0..8u8).map(|l| st.tables.iter().filter(|t| t.level == l).count()).collect::<Vec<_>>() }));
					s.cases = now.1;
					s.sample(json!({"stalled_after_commits": now.0}));
					s.print();
					std::process::exit(0);
				}
			}
		});
	}
	for h in hs {
		let _ = h.join();
	}
	stop.store(true, Ordering::SeqCst);
	for h in rs {
		let _ = h.join();
	}
	for v in viol.lock().unwrap().drain(..) {
		sum.violation(v);
	}
	sum.cases = reads.load(Ordering::Relaxed);
	sum.steps = commits * committers as u64;
	let st = tree.verif_state();
	sum.extra.insert("tables_at_end".into(), json!(st.tables.len()));
	sum.extra.insert("log_number_at_end".into(), json!(st.log_number));
	sum.sample(json!({"commits": commits, "committers": committers, "readers": readers, "memtable": memtable, "reads": sum.cases}));
	let _ = rt.block_on(tree.close());
	sum.print();
}
