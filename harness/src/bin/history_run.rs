//! C10 spec -> implementation: replays scenarios exported by TLC from spec/history/HistoryMC.tla on
//! TWO real `Tree`s in lock-step (B+tree version index on / off) and judges every time-travel read and
//! every version-history listing against the oracle the specification exported with the scenario.
//!
//! usage:
//!   history_run <tlc-export-or-ndjson> [options]            replay every scenario (twin trees)
//!   history_run --record <scenario.json> --dir D --index on|off [options]
//!                                                           run one scenario on one tree in D (meant to run under
//!                                                           shim/fsrec.so); marks flush_begin / flush_end; no close
//!   history_run --judge-image <scenario.json> --dir D --index on|off [options]
//!                                                           open D (a crash image) with the real recovery code and
//!                                                           judge history / get_at against the scenario's oracle
//! options: --levels N --block B --cache BYTES --snappy --nobloom --memtable BYTES --vlog-file BYTES
//!          --jobs N --walks N --seed S --only index|lsm
//!          --program "<tombstones 0|1>;<lo-hi|none>;<limit|none>;<lohex:hihex>;<step>,.."  directed cursor probe, printed,
//!          not judged (steps: seek_first seek_last next prev k1..k3 hex:<key>); see spec/history/mk_scenario.py
//!
//! A panic of the engine inside a scenario is caught and reported as a violation (`panic`), an error returned by any
//! step as `engine_error`; crash images are opened in a child process by the check (hang / abort = violation).
//!
//! Scenario: {"ops":[{"op","k","kind","ts"}...], "cfg":{"retention":R,"ooo":bool},
//!            "expect":{"now":n,"visible":n,"latest":{k:KeyExp},"reader":{"open":b,"snap":h,"keys":{k:KeyExp}}}}
//! KeyExp:   {"all":[{seq,kind,ts}..], "alive":[..], "must":[seq..], "tainted":b, "getat":[[ids]..]}
//!   all     every committed version visible at the horizon, newest first
//!   alive   the versions history() may list (not erased by a hard delete / replace; never the hard delete)
//!   must    the versions it has to list (alive and inside the retention window; = alive when retention is 0)
//!   getat   getat[T] = acceptable answers of get_at(k, T): value ids (= sequence number of the version), 0 = nothing
//!   tainted the recorded finding C10-expired-barrier applies to this key (finite retention only)
//! The option filters of history (tombstones, timestamp range, limit, key sub-range, seek position) are applied here
//! to alive / must; `optsample` in the export carries the spec's own filtered list for one option set so that this
//! mirror is cross-checked against History.tla on every scenario.

use std::collections::{BTreeMap, BTreeSet};
use std::io::{BufRead, BufReader};
use std::sync::atomic::{AtomicU64, Ordering};
use std::sync::{Arc, Mutex};

use rand::rngs::StdRng;
use rand::{Rng, SeedableRng};
use serde_json::{json, Value};
use surrealkv::verif::clock::ManualClock;
use surrealkv::{HistoryOptions, InternalKeyKind, LSMIterator, Mode, Options, Transaction, Tree, TreeBuilder};
use verif_harness::keys::{hex, key_bytes};
use verif_harness::out::Summary;

#[derive(Clone)]
struct Cfg {
	levels: u8,
	block: usize,
	cache: Option<u64>,
	snappy: bool,
	nobloom: bool,
	memtable: usize,
	vlog_file: Option<u64>,
	walks: usize,
	seed: u64,
	only: Option<String>,
	/// debugging aid: "tomb;lo-hi|none;limit|none;rangelo:rangehi(hex);op,op,.." runs one directed cursor program and prints it
	program: Option<String>,
}

fn cfg_json(c: &Cfg) -> Value {
	json!({"levels":c.levels,"block":c.block,"cache":c.cache,"snappy":c.snappy,"nobloom":c.nobloom,
		"memtable":c.memtable,"vlog_file":c.vlog_file})
}

// ---------------------------------------------------------------------------------------------------------
// values

fn val_bytes(seq: u64) -> Vec<u8> {
	let mut v = format!("v{seq}").into_bytes();
	match seq % 3 {
		1 => v.resize(300, b'.'),
		2 => v.resize(5000, b'.'),
		_ => {}
	}
	v
}

fn decode_val(b: &[u8]) -> u64 {
	let s: String = b.iter().take_while(|c| **c != b'.').map(|c| *c as char).collect();
	match s.strip_prefix('v').and_then(|x| x.parse::<u64>().ok()) {
		Some(n) if val_bytes(n) == b => n,
		_ => u64::MAX,
	}
}

// ---------------------------------------------------------------------------------------------------------
// expectation (exported by the specification)

#[derive(Clone, Debug)]
struct ExpVer {
	seq: u64,
	kind: String,
	ts: u64,
}

#[derive(Clone, Debug)]
struct ExpKey {
	name: String,
	bytes: Vec<u8>,
	all: Vec<ExpVer>,
	alive: Vec<ExpVer>,
	must: BTreeSet<u64>,
	tainted: bool,
	collided: bool,
	unflushed: BTreeSet<u64>,
	/// every version of the key the store holds, also those above this view's horizon
	stream: Vec<ExpVer>,
	getat: Vec<Vec<u64>>,
}

impl ExpKey {
	fn equal_ts(&self) -> bool {
		self.all.iter().any(|v| self.all.iter().any(|w| w.seq != v.seq && w.ts == v.ts))
	}
	/// an unflushed version that is older by timestamp than a version committed before it
	fn ooo_unflushed(&self) -> bool {
		self.all.iter().any(|v| self.unflushed.contains(&v.seq) && self.all.iter().any(|w| w.seq < v.seq && w.ts > v.ts))
	}
}

#[derive(Clone, Debug)]
struct View {
	keys: Vec<ExpKey>, // ascending by bytes
	horizon: u64,
	ooo: bool,
	finite: bool,
}

fn parse_vers(v: &Value) -> Vec<ExpVer> {
	v.as_array()
		.map(|a| {
			a.iter()
				.map(|x| ExpVer {
					seq: x["seq"].as_u64().unwrap(),
					kind: x["kind"].as_str().unwrap().to_string(),
					ts: x["ts"].as_u64().unwrap(),
				})
				.collect()
		})
		.unwrap_or_default()
}

fn parse_view(keys: &Value, horizon: u64, ooo: bool, finite: bool) -> View {
	let mut out = Vec::new();
	for (k, e) in keys.as_object().unwrap() {
		out.push(ExpKey {
			name: k.clone(),
			bytes: key_bytes(k),
			all: parse_vers(&e["all"]),
			alive: parse_vers(&e["alive"]),
			must: e["must"].as_array().map(|a| a.iter().map(|x| x.as_u64().unwrap()).collect()).unwrap_or_default(),
			tainted: e["tainted"].as_bool().unwrap_or(false),
			collided: e["collided"].as_bool().unwrap_or(false),
			stream: parse_vers(&e["all"]),
			unflushed: e["unflushed"].as_array().map(|a| a.iter().map(|x| x.as_u64().unwrap()).collect()).unwrap_or_default(),
			getat: e["getat"]
				.as_array()
				.map(|a| a.iter().map(|s| s.as_array().map(|x| x.iter().map(|y| y.as_u64().unwrap()).collect()).unwrap_or_default()).collect())
				.unwrap_or_default(),
		});
	}
	out.sort_by(|a, b| a.bytes.cmp(&b.bytes));
	View {
		keys: out,
		horizon,
		ooo,
		finite,
	}
}

fn kind_of(name: &str) -> u8 {
	match name {
		"Del" => InternalKeyKind::Delete as u8,
		"SoftDel" => InternalKeyKind::SoftDelete as u8,
		"Set" => InternalKeyKind::Set as u8,
		"Replace" => InternalKeyKind::Replace as u8,
		_ => 255,
	}
}

// ---------------------------------------------------------------------------------------------------------
// observation

#[derive(Clone, Debug)]
struct Obs {
	key: Vec<u8>,
	seq: u64,
	ts: u64,
	kind: u8,
	val: Result<Vec<u8>, String>,
}

fn obs_json(o: &Obs) -> Value {
	json!({"key":hex(&o.key),"seq":o.seq,"ts":o.ts,"kind":o.kind,
		"val": match &o.val { Ok(v) => json!(decode_val(v)), Err(e) => json!(format!("ERR {e}")) }})
}

fn cur(it: &dyn LSMIterator) -> Obs {
	let k = it.key();
	// a tombstone has no value: the repository's own users test is_tombstone() first
	let val = if k.is_tombstone() { Ok(Vec::new()) } else { it.value().map_err(|e| e.to_string()) };
	Obs {
		key: k.user_key().to_vec(),
		seq: k.seq_num(),
		ts: k.timestamp(),
		kind: k.kind() as u8,
		val,
	}
}

const MAX_WALK: usize = 2000;

#[derive(Clone, Debug)]
struct HOpts {
	tomb: bool,
	ts: Option<(u64, u64)>,
	limit: Option<usize>,
}

fn hopts(o: &HOpts) -> HistoryOptions {
	let mut h = HistoryOptions::new().with_tombstones(o.tomb);
	if let Some((a, b)) = o.ts {
		h = h.with_ts_range(a, b);
	}
	if let Some(l) = o.limit {
		h = h.with_limit(l);
	}
	h
}

fn hopts_json(o: &HOpts) -> Value {
	json!({"tombstones":o.tomb,"ts_range":o.ts.map(|(a,b)| vec![a,b]),"limit":o.limit})
}

// ---------------------------------------------------------------------------------------------------------
// judgement

#[derive(Clone, Debug)]
struct Canon {
	kidx: usize,
	seq: u64,
	ts: u64,
	kind: String,
	must: bool,
}

/// The list history() may produce for (range, options), canonical order (key ascending, newest first); `must` marks
/// the entries it has to contain. The limit is not applied here.
fn canon(view: &View, lo: &[u8], hi: &[u8], o: &HOpts) -> Vec<Canon> {
	let mut out = Vec::new();
	for (i, k) in view.keys.iter().enumerate() {
		if k.bytes.as_slice() < lo || k.bytes.as_slice() >= hi {
			continue;
		}
		for v in &k.alive {
			if !o.tomb && v.kind == "SoftDel" {
				continue;
			}
			if let Some((a, b)) = o.ts {
				if v.ts < a || v.ts > b {
					continue;
				}
			}
			out.push(Canon {
				kidx: i,
				seq: v.seq,
				ts: v.ts,
				kind: v.kind.clone(),
				must: k.must.contains(&v.seq),
			});
		}
	}
	out
}

struct Judge<'a> {
	view: &'a View,
	backend: &'a str,
	who: &'a str,
	viol: Vec<Value>,
	drift: Vec<Value>,
	judged: u64,
}

impl<'a> Judge<'a> {
	fn v(&mut self, kind: &str, mode: &str, lo: &[u8], hi: &[u8], o: Option<&HOpts>, key: Option<&ExpKey>, detail: Value) {
		self.vc(kind, "", mode, lo, hi, o, key, detail)
	}

	#[allow(clippy::too_many_arguments)]
	fn vc(&mut self, kind: &str, cause: &str, mode: &str, lo: &[u8], hi: &[u8], o: Option<&HOpts>, key: Option<&ExpKey>, detail: Value) {
		let tainted = key.map(|k| k.tainted).unwrap_or(false);
		self.viol.push(json!({
			"cause": cause,
			"kind": kind, "backend": self.backend, "who": self.who, "mode": mode,
			"range": [hex(lo), hex(hi)], "opts": o.map(hopts_json),
			"ts_range": o.map(|o| o.ts.is_some()).unwrap_or(false),
			"limit": o.map(|o| o.limit.is_some()).unwrap_or(false),
			"key": key.map(|k| k.name.clone()), "tainted": tainted, "collided": key.map(|k| k.collided).unwrap_or(false),
			"equal_ts": key.map(|k| k.equal_ts()).unwrap_or(false),
			"ooo_unflushed": key.map(|k| k.ooo_unflushed()).unwrap_or(false),
			// the listing was produced by a merge under TimestampComparator (key, timestamp) - the sequence number is ignored
			"ts_merge": self.backend == "index" || o.map(|o| o.ts.is_some()).unwrap_or(false),
			"finite": self.view.finite, "ooo": self.view.ooo, "detail": detail,
		}));
	}

	/// Why may an erased version show up? The only cause this driver recognises structurally: every barrier
	/// (hard delete / replace) that erased it carries a timestamp outside the requested timestamp range.
	fn erased_cause(&self, k: &ExpKey, seq: u64, o: &HOpts) -> &'static str {
		let Some((a, b)) = o.ts else {
			return "";
		};
		// the newest barrier above the version is the one that is sure to exist physically (older ones are erased
		// themselves and may have been compacted away)
		let newest = k.all.iter().filter(|v| v.seq > seq && (v.kind == "Del" || v.kind == "Replace")).max_by_key(|v| v.seq);
		match newest {
			Some(v) if v.ts < a || v.ts > b => "barrier_outside_ts_range",
			_ => "",
		}
	}

	/// Is there, in canonical order after `missing` and before `first_listed` (or the end of the range), a version
	/// that exists at this horizon but is not to be shown under these options?
	fn hidden_group(&self, can: &[Canon], lo: &[u8], hi: &[u8], missing: &Canon, first_listed: Option<&Canon>) -> bool {
		self.view.keys.iter().enumerate().any(|(ki, k)| {
			ki >= missing.kidx
				&& k.bytes.as_slice() >= lo
				&& k.bytes.as_slice() < hi
				&& first_listed.map(|f| ki <= f.kidx).unwrap_or(true)
				&& k.stream.iter().any(|v| {
					let shown = can.iter().any(|x| x.kidx == ki && x.seq == v.seq);
					let ooo = self.view.ooo;
					let after_missing = ki > missing.kidx || v.seq > missing.seq || (ooo && v.ts > missing.ts);
					let before_listed = first_listed.map(|f| ki < f.kidx || v.seq > f.seq || (ooo && v.ts > f.ts)).unwrap_or(true);
					!shown && after_missing && before_listed
				})
		})
	}

	/// classify an observed entry that the oracle does not allow in this listing
	fn classify(&self, e: &Obs, lo: &[u8], hi: &[u8], o: &HOpts) -> (&'static str, Option<&'a ExpKey>) {
		let key = self.view.keys.iter().find(|k| k.bytes == e.key);
		let Some(k) = key else {
			return ("phantom_key_listed", None);
		};
		if e.key.as_slice() < lo || e.key.as_slice() >= hi {
			return ("key_outside_range_listed", Some(k));
		}
		if e.seq > self.view.horizon {
			return ("future_version_listed", Some(k));
		}
		let Some(v) = k.all.iter().find(|v| v.seq == e.seq) else {
			return ("phantom_version_listed", Some(k));
		};
		if v.kind == "Del" {
			return ("hard_delete_listed", Some(k));
		}
		if !k.alive.iter().any(|a| a.seq == e.seq) {
			return ("erased_version_listed", Some(k));
		}
		if !o.tomb && v.kind == "SoftDel" {
			return ("tombstone_listed_without_option", Some(k));
		}
		if let Some((a, b)) = o.ts {
			if v.ts < a || v.ts > b {
				return ("version_outside_ts_range_listed", Some(k));
			}
		}
		("unexpected_version_listed", Some(k))
	}

	/// `obs` is a listing in canonical direction (already reversed for backward walks).
	/// `req_lo..req_hi` = the canonical index interval inside which every `must` entry has to be present.
	#[allow(clippy::too_many_arguments)]
	fn listing(&mut self, mode: &str, lo: &[u8], hi: &[u8], o: &HOpts, can: &[Canon], obs: &[Obs], whole: bool, backward: bool, complete: bool) {
		self.judged += 1;
		let view = self.view;
		let mut idxs: Vec<usize> = Vec::new();
		let mut seen: BTreeSet<usize> = BTreeSet::new();
		for e in obs {
			let pos = can.iter().position(|c| view.keys[c.kidx].bytes == e.key && c.seq == e.seq);
			match pos {
				None => {
					let (kind, key) = self.classify(e, lo, hi, o);
					let cause = match (kind, key) {
						("erased_version_listed", Some(k)) => self.erased_cause(k, e.seq, o),
						_ => "",
					};
					self.vc(kind, cause, mode, lo, hi, Some(o), key, obs_json(e));
				}
				Some(p) => {
					let c = &can[p];
					let key = &view.keys[c.kidx];
					if !seen.insert(p) {
						self.v("version_listed_twice", mode, lo, hi, Some(o), Some(key), obs_json(e));
						continue;
					}
					idxs.push(p);
					if e.ts != c.ts || e.kind != kind_of(&c.kind) {
						self.v("version_metadata_wrong", mode, lo, hi, Some(o), Some(key),
							json!({"got":obs_json(e),"want":{"seq":c.seq,"ts":c.ts,"kind":c.kind}}));
					}
					match &e.val {
						Err(err) => self.v("value_unreadable", mode, lo, hi, Some(o), Some(key), json!({"entry":obs_json(e),"error":err})),
						Ok(v) => {
							let ok = if c.kind == "SoftDel" { v.is_empty() } else { decode_val(v) == c.seq };
							if !ok {
								self.v("version_value_wrong", mode, lo, hi, Some(o), Some(key), json!({"got":obs_json(e),"want":c.seq}));
							}
						}
					}
				}
			}
		}
		// order: keys ascending, per key newest first (versions with equal timestamps may come in either order;
		// with out-of-order timestamps "newest" is accepted by sequence number or by timestamp)
		for w in idxs.windows(2) {
			let (a, b) = (&can[w[0]], &can[w[1]]);
			if a.kidx > b.kidx {
				self.v("keys_not_ascending", mode, lo, hi, Some(o), Some(&view.keys[b.kidx]), json!({"first":a.seq,"then":b.seq}));
				break;
			}
		}
		for (ki, key) in view.keys.iter().enumerate() {
			let per: Vec<&Canon> = idxs.iter().map(|i| &can[*i]).filter(|c| c.kidx == ki).collect();
			// contiguous?
			let first = idxs.iter().position(|i| can[*i].kidx == ki);
			let last = idxs.iter().rposition(|i| can[*i].kidx == ki);
			if let (Some(f), Some(l)) = (first, last) {
				if l - f + 1 != per.len() {
					self.v("key_versions_not_contiguous", mode, lo, hi, Some(o), Some(key), json!({}));
				}
			}
			let by_seq = per.windows(2).all(|w| w[0].seq > w[1].seq || w[0].ts == w[1].ts);
			let by_ts = per.windows(2).all(|w| w[0].ts >= w[1].ts);
			if !(by_seq || (view.ooo && by_ts)) {
				let seqs: Vec<u64> = per.iter().map(|c| c.seq).collect();
				if view.ooo {
					self.drift.push(json!({"kind":"order_with_out_of_order_timestamps","backend":self.backend,"mode":mode,"seqs":seqs}));
				} else {
					self.v("not_newest_first", mode, lo, hi, Some(o), Some(key), json!({"seqs":seqs}));
				}
			}
		}
		// completeness
		if let Some(l) = o.limit {
			if obs.len() > l {
				self.v("limit_exceeded", mode, lo, hi, Some(o), None, json!({"returned":obs.len()}));
			}
		}
		let cut = whole && o.limit.map(|l| obs.len() >= l).unwrap_or(false);
		if cut && view.ooo {
			return; // which versions of a key come first is not defined with out-of-order timestamps
		}
		// with a limit the listing is cut: a retained version is only due if it precedes (forward) / follows (backward)
		// a listed one in EVERY acceptable order (versions with equal timestamps may come either way)
		let must_precede = |a: &Canon, b: &Canon| a.kidx < b.kidx || (a.kidx == b.kidx && a.seq > b.seq && a.ts > b.ts);
		let (rlo, rhi) = if !cut {
			(0usize, can.len())
		} else if backward {
			let lo_i = (0..can.len()).find(|p| idxs.iter().any(|i| must_precede(&can[*i], &can[*p]))).unwrap_or(can.len());
			(lo_i, can.len())
		} else {
			let hi_i = (0..can.len()).rev().find(|p| idxs.iter().any(|i| must_precede(&can[*p], &can[*i]))).map(|p| p + 1).unwrap_or(0);
			(0usize, hi_i)
		};
		for (p, c) in can.iter().enumerate() {
			if complete && c.must && p >= rlo && p < rhi && !seen.contains(&p) {
				let key = &view.keys[c.kidx];
				// structural cause: a backward walk that lists exactly a tail of the expected list and stops where a
				// group of versions that are not to be shown (hard-deleted key, filtered tombstones, versions outside the
				// timestamp range, erased versions) comes next
				let t = idxs.iter().min().copied().unwrap_or(rhi.min(can.len()));
				let tail_only = backward && p < t && (t..rhi.min(can.len())).all(|q| seen.contains(&q));
				let hidden_between = self.hidden_group(can, lo, hi, c, can.get(t).filter(|_| t < rhi.min(can.len())));
				let cause = if tail_only && hidden_between { "backward_walk_stops_at_hidden_versions" } else { "" };
				self.vc("retained_version_missing", cause, mode, lo, hi, Some(o), Some(key), json!({"seq":c.seq,"ts":c.ts,"kind":c.kind,
					"listed": obs.iter().map(obs_json).collect::<Vec<_>>()}));
			}
		}
	}
}

fn walk(it: &mut dyn LSMIterator, forward: bool, first: Result<bool, surrealkv::Error>) -> Result<Vec<Obs>, String> {
	let mut out = Vec::new();
	let mut ok = first.map_err(|e| e.to_string())?;
	while ok && it.valid() {
		out.push(cur(it));
		if out.len() > MAX_WALK {
			return Err("history cursor does not terminate".into());
		}
		ok = if forward { it.next() } else { it.prev() }.map_err(|e| e.to_string())?;
	}
	Ok(out)
}

fn ts_choices(view: &View) -> Vec<Option<(u64, u64)>> {
	let mut ts: BTreeSet<u64> = BTreeSet::new();
	for k in &view.keys {
		for v in &k.all {
			ts.insert(v.ts);
		}
	}
	let max = ts.iter().max().copied().unwrap_or(0);
	let mut out = vec![None, Some((0, max + 1))];
	for t in &ts {
		out.push(Some((*t, *t)));
		out.push(Some((0, *t)));
		out.push(Some((*t, max + 1)));
		if *t > 0 {
			out.push(Some((0, *t - 1)));
		}
		out.push(Some((*t + 1, max + 2)));
	}
	out.sort();
	out.dedup();
	out
}

/// every observation of one reader on one tree
fn observe(t: &Transaction, view: &View, backend: &str, who: &str, cfg: &Cfg, rng: &mut StdRng) -> (Vec<Value>, Vec<Value>, u64) {
	let mut j = Judge {
		view,
		backend,
		who,
		viol: Vec::new(),
		drift: Vec::new(),
		judged: 0,
	};
	// ---- point-in-time reads
	for k in &view.keys {
		for (tq, accept) in k.getat.iter().enumerate() {
			j.judged += 1;
			let got = match t.get_at(k.bytes.clone(), tq as u64) {
				Ok(None) => 0,
				Ok(Some(v)) => decode_val(&v),
				Err(e) => {
					j.v("get_at_error", "get_at", &[], &[], None, Some(k), json!({"t":tq,"error":e.to_string()}));
					continue;
				}
			};
			if !accept.contains(&got) {
				let kind = if got == 0 {
					"get_at_misses_version"
				} else if got != u64::MAX && k.all.iter().any(|v| v.seq == got) && !k.alive.iter().any(|v| v.seq == got) {
					"get_at_returns_erased_version"
				} else {
					"get_at_wrong_version"
				};
				j.v(kind, "get_at", &[], &[], None, Some(k), json!({"t":tq,"got":got,"accept":accept}));
			}
		}
	}
	// ---- history listings
	let lo_all: Vec<u8> = b"\x00".to_vec();
	let hi_all: Vec<u8> = b"\xff\xff".to_vec();
	let mut ranges: Vec<(Vec<u8>, Vec<u8>)> = vec![(lo_all.clone(), hi_all.clone())];
	for (i, k) in view.keys.iter().enumerate() {
		ranges.push((k.bytes.clone(), hi_all.clone()));
		ranges.push((lo_all.clone(), k.bytes.clone()));
		if let Some(n) = view.keys.get(i + 1) {
			ranges.push((k.bytes.clone(), n.bytes.clone())); // exactly one key
		}
		ranges.push((k.bytes.clone(), k.bytes.clone())); // empty
	}
	ranges.sort();
	ranges.dedup();
	let tss = ts_choices(view);
	for (ri, (lo, hi)) in ranges.iter().enumerate() {
		let whole = lo == &lo_all && hi == &hi_all;
		for tomb in [false, true] {
			for (ti, ts) in tss.iter().enumerate() {
				// every timestamp range on the whole key range; a rotating third of them on the sub-ranges
				if !whole && ts.is_some() && (ti + ri + view.horizon as usize) % 3 != 0 {
					continue;
				}
				for limit in [None, Some(1usize), Some(2), Some(3)] {
					if limit.is_some() && !whole {
						continue;
					}
					let o = HOpts {
						tomb,
						ts: *ts,
						limit,
					};
					let can = canon(view, lo, hi, &o);
					let ho = hopts(&o);
					for forward in [true, false] {
						let mode = if forward { "forward" } else { "backward" };
						let mut it = match t.history_with_options(lo.clone(), hi.clone(), &ho) {
							Ok(it) => it,
							Err(e) => {
								j.v("history_error", mode, lo, hi, Some(&o), None, json!(e.to_string()));
								continue;
							}
						};
						let first = if forward { it.seek_first() } else { it.seek_last() };
						match walk(&mut it, forward, first) {
							Ok(mut obs) => {
								if !forward {
									obs.reverse();
								}
								j.listing(mode, lo, hi, &o, &can, &obs, true, !forward, true);
							}
							Err(e) => j.v("history_error", mode, lo, hi, Some(&o), None, json!(e)),
						}
					}
					if limit.is_some() {
						continue;
					}
					// ---- seeks: seek(target) then to the end forward / to the beginning backward
					let mut targets: Vec<Vec<u8>> = view.keys.iter().map(|k| k.bytes.clone()).collect();
					targets.push(b"a\x00\x00".to_vec()); // between keys
					targets.push(b"\x01".to_vec()); // before all
					targets.push(b"z".to_vec()); // after all
					for tg in &targets {
						if tg.as_slice() < lo.as_slice() {
							continue; // below the range: the property does not say where such a seek lands
						}
						let from = can.iter().position(|c| view.keys[c.kidx].bytes.as_slice() >= tg.as_slice()).unwrap_or(can.len());
						for forward in [true, false] {
							let mode = if forward { "seek_next" } else { "seek_prev" };
							let mut it = match t.history_with_options(lo.clone(), hi.clone(), &ho) {
								Ok(it) => it,
								Err(e) => {
									j.v("history_error", mode, lo, hi, Some(&o), None, json!(e.to_string()));
									continue;
								}
							};
							let first = it.seek(tg);
							match walk(&mut it, forward, first) {
								Ok(obs) => {
									if forward {
										j.listing(mode, tg.as_slice().max(lo.as_slice()), hi, &o, &can[from..], &obs, false, false, true);
									} else if let Some(p) = obs.first() {
										// position after the seek must be inside the suffix, nothing retained before it there
										let ppos = can.iter().position(|c| view.keys[c.kidx].bytes == p.key && c.seq == p.seq);
										let landed_ok = matches!(ppos, Some(pp) if pp >= from);
										let upto = match ppos {
											Some(pp) if pp >= from => {
												for c in &can[from..pp] {
													if c.must && !(view.ooo && c.kidx == can[pp].kidx) {
														let key = &view.keys[c.kidx];
														j.v("retained_version_missing", mode, lo, hi, Some(&o), Some(key),
															json!({"seq":c.seq,"seek":hex(tg),"landed":obs_json(p)}));
													}
												}
												pp + 1
											}
											_ => can.len(),
										};
										let mut l = obs.clone();
										l.reverse();
										// everything walked must lie at or before the landing position
										// (a landing outside the list is reported as such; completeness is then undefined)
										let mut can2: Vec<Canon> = can[..upto].to_vec();
										if view.ooo {
											// which versions of the landing key lie "before" the landing is not defined
											let lk = view.keys.iter().position(|k| k.bytes == p.key);
											can2.retain(|c| Some(c.kidx) != lk || l.iter().any(|e| e.seq == c.seq && view.keys[c.kidx].bytes == e.key));
										}
										j.listing(mode, lo, hi, &o, &can2, &l, false, true, landed_ok);
									} else {
										for c in &can[from..] {
											if c.must {
												let key = &view.keys[c.kidx];
												j.v("retained_version_missing", mode, lo, hi, Some(&o), Some(key),
													json!({"seq":c.seq,"seek":hex(tg),"landed":null}));
											}
										}
									}
								}
								Err(e) => j.v("history_error", mode, lo, hi, Some(&o), None, json!(e)),
							}
						}
					}
				}
			}
		}
	}
	// ---- cursor walks with reversals (only where the oracle is exact)
	// (versions with equal timestamps may be listed in either order: positions are then not defined either)
	let exact = view.keys.iter().all(|k| k.alive.iter().all(|v| k.must.contains(&v.seq)) && !k.equal_ts()) && !view.ooo;
	if exact {
		for _ in 0..cfg.walks {
			let (lo, hi) = ranges[rng.random_range(0..ranges.len())].clone();
			let o = HOpts {
				tomb: rng.random_range(0..2) == 0,
				ts: tss[rng.random_range(0..tss.len())],
				limit: None,
			};
			let can = canon(view, &lo, &hi, &o);
			let mut it = match t.history_with_options(lo.clone(), hi.clone(), &hopts(&o)) {
				Ok(it) => it,
				Err(_) => continue,
			};
			j.judged += 1;
			let mut pos: Option<usize> = None;
			let mut prog: Vec<String> = Vec::new();
			let mut prev_pos: Option<usize>;
			let mut prev_back = false;
			for step in 0..8 {
				prev_pos = pos;
				// one seek on a fresh cursor, then next / prev with reversals until the walk leaves the list
				let c = if step == 0 { rng.random_range(0..3) } else { rng.random_range(3..7) };
				let (name, r) = match c {
					0 => {
						pos = if can.is_empty() { None } else { Some(0) };
						("seek_first".to_string(), it.seek_first())
					}
					1 => {
						pos = if can.is_empty() { None } else { Some(can.len() - 1) };
						("seek_last".to_string(), it.seek_last())
					}
					2 => {
						let k = &view.keys[rng.random_range(0..view.keys.len())];
						if k.bytes < lo {
							break;
						}
						pos = can.iter().position(|c| view.keys[c.kidx].bytes >= k.bytes);
						(format!("seek({})", k.name), it.seek(&k.bytes))
					}
					3 | 4 => {
						pos = pos.and_then(|p| if p + 1 < can.len() { Some(p + 1) } else { None });
						("next".to_string(), it.next())
					}
					_ => {
						pos = pos.and_then(|p| if p > 0 { Some(p - 1) } else { None });
						("prev".to_string(), it.prev())
					}
				};
				prog.push(name);
				if let Err(e) = r {
					j.v("history_error", "reversal", &lo, &hi, Some(&o), None, json!({"program":prog,"error":e.to_string()}));
					break;
				}
				let got = if it.valid() { Some(cur(&it)) } else { None };
				let want = pos.map(|p| &can[p]);
				let same = match (&got, want) {
					(None, None) => true,
					(Some(g), Some(w)) => g.key == view.keys[w.kidx].bytes && g.seq == w.seq,
					_ => false,
				};
				if !same {
					let (kind, key) = match &got {
						Some(g) if !can.iter().any(|c| view.keys[c.kidx].bytes == g.key && c.seq == g.seq) => j.classify(g, &lo, &hi, &o),
						_ => ("cursor_position_wrong", None),
					};
					let back_now = prog.last().map(|p| p == "prev" || p == "seek_last").unwrap_or(false);
					let mut kind = kind;
					let mut key = key;
					let cause = match (kind, key, &got) {
						("erased_version_listed", Some(k), Some(g)) => {
							let c = j.erased_cause(k, g.seq, &o);
							// turning from backward to forward while standing on a REPLACE: the cursor forgets the barrier
							let on_replace = prev_pos.map(|p| can[p].kind == "Replace" && view.keys[can[p].kidx].bytes == g.key).unwrap_or(false);
							if c.is_empty() && prev_back && !back_now && on_replace { "direction_change_on_replace" } else { c }
						}
						("cursor_position_wrong", _, Some(g))
							if prev_back && !back_now && prev_pos.map(|p| {
								let here = can.iter().position(|c| view.keys[c.kidx].bytes == g.key && c.seq == g.seq);
								view.keys[can[p].kidx].bytes == g.key && here.map(|h| h <= p).unwrap_or(false)
							}).unwrap_or(false) =>
						{
							// turning from backward to forward: the cursor resumes from an earlier version of the key it stood on
							// (the entry itself once more, or one before it)
							"direction_change_resumes_inside_key"
						}
						("cursor_position_wrong", _, None) if back_now && want.is_some() => {
							// a backward move that finds nothing although an entry is due
							let w = want.unwrap();
							kind = "retained_version_missing";
							key = Some(&view.keys[w.kidx]);
							let before = prev_pos.filter(|_| prog.last().map(|p| p == "prev").unwrap_or(false)).map(|p| &can[p]);
							if j.hidden_group(&can, &lo, &hi, w, before) { "backward_walk_stops_at_hidden_versions" } else { "" }
						}
						_ => "",
					};
					// a direction change at this step or at an earlier one of this walk (a mispositioned cursor may only
					// show later); a seek counts as a forward move, seek_last as a backward one
					let dirs: Vec<bool> = prog.iter().map(|p| p == "prev" || p == "seek_last").collect();
					let turned = dirs.windows(2).any(|w| w[0] != w[1]);
					let mode = if turned { "reversal/turn" } else { "reversal" };
					// the same entry once more without any direction change: it is listed twice
					if !turned && kind == "cursor_position_wrong" {
						if let (Some(g), Some(p)) = (&got, prev_pos) {
							if view.keys[can[p].kidx].bytes == g.key && can[p].seq == g.seq {
								kind = "version_listed_twice";
								key = Some(&view.keys[can[p].kidx]);
							}
						}
					}
					j.vc(kind, cause, mode, &lo, &hi, Some(&o), key,
						json!({"program":prog,"got":got.as_ref().map(obs_json),"want":want.map(|w| json!({"key":view.keys[w.kidx].name,"seq":w.seq}))}));
					break;
				}
				prev_back = prog.last().map(|p| p == "prev" || p == "seek_last").unwrap_or(false);
				if pos.is_none() {
					break; // off an end: only a fresh seek is defined from here (cursor reuse is C09's subject)
				}
			}
		}
	}
	(j.viol, j.drift, j.judged)
}

// ---------------------------------------------------------------------------------------------------------
// engine

struct Twin {
	name: &'static str,
	index: bool,
	dir: std::path::PathBuf,
	_tmp: Option<tempfile::TempDir>,
	clock: Arc<ManualClock>,
	tree: Option<Tree>,
	reader: Option<Transaction>,
}

fn options(cfg: &Cfg, dir: &std::path::Path, index: bool, retention: u64, clock: &Arc<ManualClock>, flush_on_close: bool) -> Options {
	let mut opts = Options::new()
		.with_path(dir.to_path_buf())
		.with_level_count(cfg.levels)
		.with_max_memtable_size(cfg.memtable)
		.with_block_size(cfg.block)
		.with_index_partition_size(64)
		.with_l0_stall_threshold(64)
		.with_memtable_stall_threshold(64)
		.with_enable_vlog(true)
		.with_vlog_value_threshold(0)
		.with_versioning(true, retention)
		.with_versioned_index(index)
		.with_verif_clock(Arc::clone(clock));
	opts.level0_max_files = 64; // nothing happens behind the scenario's back
	opts.flush_on_close = flush_on_close;
	if let Some(c) = cfg.cache {
		opts = opts.with_block_cache_capacity(c);
	}
	if cfg.snappy {
		opts = opts.with_compression_per_level(vec![surrealkv::CompressionType::SnappyCompression; cfg.levels as usize]);
	} else {
		opts = opts.without_compression();
	}
	if cfg.nobloom {
		opts = opts.with_filter_policy(None);
	}
	if let Some(n) = cfg.vlog_file {
		opts = opts.with_vlog_max_file_size(n);
	}
	if let Err(e) = opts.validate() {
		eprintln!("driver configuration rejected by Options::validate: {e}");
		std::process::exit(2);
	}
	opts
}

/// flush_on_close for the session that starts at op index `from`: decided by the next Reopen op
fn next_reopen_flushes(ops: &[Value], from: usize) -> bool {
	for op in &ops[from..] {
		if op["op"] == "Reopen" {
			return op["kind"] == "flush";
		}
	}
	false
}

fn mark(text: &str) -> u64 {
	type MarkFn = unsafe extern "C" fn(*const libc::c_char) -> u64;
	static F: std::sync::OnceLock<Option<MarkFn>> = std::sync::OnceLock::new();
	let f = F.get_or_init(|| unsafe {
		let sym = libc::dlsym(libc::RTLD_DEFAULT, c"fsrec_mark".as_ptr());
		if sym.is_null() {
			None
		} else {
			Some(std::mem::transmute::<*mut libc::c_void, MarkFn>(sym))
		}
	});
	match f {
		Some(f) => {
			let c = std::ffi::CString::new(text).unwrap();
			unsafe { f(c.as_ptr()) }
		}
		None => 0,
	}
}

fn apply_op(tw: &mut Twin, rt: &tokio::runtime::Runtime, cfg: &Cfg, ops: &[Value], i: usize, retention: u64, commits: u64,
	marks: bool) -> Result<(), String> {
	let op = &ops[i];
	let name = op["op"].as_str().unwrap();
	let fail = |e: String| format!("step {i} {name} [{}]: {e}", tw.name);
	match name {
		"Tick" => tw.clock.set(op["ts"].as_u64().unwrap()),
		"Commit" => {
			let tree = tw.tree.as_ref().unwrap();
			let k = key_bytes(op["k"].as_str().unwrap());
			let ts = op["ts"].as_u64().unwrap();
			let v = val_bytes(commits);
			let mut t = tree.begin().map_err(|e| fail(e.to_string()))?;
			match op["kind"].as_str().unwrap() {
				// the commit-time path and the explicit-timestamp path alternate when both mean the same
				"Set" if ts == tw.clock.get() && commits % 2 == 1 => t.set(k, v),
				"Set" => t.set_at(k, v, ts),
				"Del" => t.delete(k),
				"SoftDel" => t.soft_delete(k),
				"Replace" => t.replace(k, v),
				_ => return Err(fail("kind".into())),
			}
			.map_err(|e| fail(e.to_string()))?;
			rt.block_on(t.commit()).map_err(|e| fail(e.to_string()))?;
		}
		"Rotate" => tw.tree.as_ref().unwrap().verif_rotate().map_err(|e| fail(e.to_string()))?,
		"Flush" => {
			if marks {
				mark(&json!({"ev":"flush_begin","step":i}).to_string());
			}
			let r = tw.tree.as_ref().unwrap().verif_flush_one().map_err(|e| fail(e.to_string()));
			if marks {
				mark(&json!({"ev":"flush_end","step":i}).to_string());
			}
			r?
		}
		"Compact" => tw.tree.as_ref().unwrap().verif_compact(op["ts"].as_u64().unwrap() as u8).map_err(|e| fail(e.to_string()))?,
		"Reopen" => {
			tw.reader = None;
			let tree = tw.tree.take().unwrap();
			rt.block_on(tree.close()).map_err(|e| fail(format!("close: {e}")))?;
			drop(tree);
			let o = options(cfg, &tw.dir, tw.index, retention, &tw.clock, next_reopen_flushes(ops, i + 1));
			tw.tree = Some(TreeBuilder::with_options(o).build().map_err(|e| fail(format!("reopen failed: {e}")))?);
		}
		"Begin" => {
			tw.reader = Some(tw.tree.as_ref().unwrap().begin_with_mode(Mode::ReadOnly).map_err(|e| fail(e.to_string()))?);
		}
		"End" => tw.reader = None,
		_ => return Err(fail("unknown op".into())),
	}
	Ok(())
}

/// structural signature of a violation (what known_findings.json entries are matched against)
fn signature(v: &Value) -> Value {
	let mode = v["mode"].as_str().unwrap_or("");
	json!({
		"class": v["kind"], "cause": v["cause"].as_str().unwrap_or(""), "backend": v["backend"], "mode": mode,
		"ts_range": v["ts_range"].as_bool().unwrap_or(false), "limit": v["limit"].as_bool().unwrap_or(false),
		"finite": v["finite"].as_bool().unwrap_or(false), "ooo": v["ooo"].as_bool().unwrap_or(false),
		"tainted": v["tainted"].as_bool().unwrap_or(false), "collided": v["collided"].as_bool().unwrap_or(false),
		"equal_ts": v["equal_ts"].as_bool().unwrap_or(false),
		"ooo_unflushed": v["ooo_unflushed"].as_bool().unwrap_or(false),
		"ts_merge": v["ts_merge"].as_bool().unwrap_or(false),
		"stage": if v["crash"].as_bool().unwrap_or(false) { v["who"].clone() } else { Value::Null },
	})
}

#[derive(Default)]
struct Groups {
	map: BTreeMap<String, (u64, usize, Value)>, // signature -> (count, ops of the kept example, example)
}

impl Groups {
	fn add(&mut self, v: Value, nops: usize) {
		let sig = signature(&v).to_string();
		let e = self.map.entry(sig).or_insert((0, usize::MAX, Value::Null));
		e.0 += 1;
		if nops < e.1 {
			e.1 = nops;
			e.2 = v;
		}
	}
	fn to_json(&self) -> Value {
		Value::Array(
			self.map
				.iter()
				.map(|(sig, (n, _, ex))| json!({"signature": serde_json::from_str::<Value>(sig).unwrap(), "count": n, "example": ex}))
				.collect(),
		)
	}
}

struct Outcome {
	viol: Vec<Value>,
	drift: Vec<Value>,
	judged: u64,
}

fn views(sc: &Value) -> (View, Option<View>) {
	let exp = &sc["expect"];
	let ooo = sc["cfg"]["ooo"].as_bool().unwrap_or(false);
	let finite = sc["cfg"]["retention"].as_u64().unwrap_or(0) > 0;
	let latest = parse_view(&exp["latest"], exp["visible"].as_u64().unwrap(), ooo, finite);
	let reader = if exp["reader"]["open"].as_bool().unwrap_or(false) {
		let mut v = parse_view(&exp["reader"]["keys"], exp["reader"]["snap"].as_u64().unwrap(), ooo, finite);
		for k in v.keys.iter_mut() {
			if let Some(l) = latest.keys.iter().find(|l| l.name == k.name) {
				k.stream = l.all.clone();
			}
		}
		Some(v)
	} else {
		None
	};
	(latest, reader)
}

/// the driver's option filter against the specification's own (one sample per scenario)
fn cross_check(sc: &Value, latest: &View) -> Result<(), String> {
	let s = &sc["expect"]["optsample"];
	if s.is_null() {
		return Ok(());
	}
	let o = HOpts {
		tomb: s["tomb"].as_bool().unwrap(),
		ts: Some((s["lo"].as_u64().unwrap(), s["hi"].as_u64().unwrap())),
		limit: None,
	};
	let can = canon(latest, b"\x00", b"\xff\xff", &o);
	let mine: Vec<(String, u64)> = can.iter().map(|c| (latest.keys[c.kidx].name.clone(), c.seq)).collect();
	let spec: Vec<(String, u64)> = s["list"]
		.as_array()
		.unwrap()
		.iter()
		.map(|e| (e["k"].as_str().unwrap().to_string(), e["seq"].as_u64().unwrap()))
		.collect();
	if mine != spec {
		return Err(format!("option filter of the driver disagrees with History.tla: spec {spec:?} driver {mine:?}"));
	}
	Ok(())
}

fn run_scenario(sc: &Value, cfg: &Cfg, case_no: u64) -> Result<Outcome, String> {
	let rt = verif_harness::rt();
	let _g = rt.enter();
	let retention = sc["cfg"]["retention"].as_u64().unwrap_or(0);
	let ooo = sc["cfg"]["ooo"].as_bool().unwrap_or(false);
	let ops = sc["ops"].as_array().unwrap();
	let (latest, reader) = views(sc);
	cross_check(sc, &latest).map_err(|e| format!("TOOL {e}"))?;
	let mut twins: Vec<Twin> = Vec::new();
	for (name, index) in [("index", true), ("lsm", false)] {
		if !index && ooo {
			continue; // out-of-order timestamps are only defined with the version index
		}
		if cfg.only.as_deref().map(|o| o != name).unwrap_or(false) {
			continue;
		}
		let tmp = verif_harness::scratch_dir("hist");
		let clock = ManualClock::new(1);
		let o = options(cfg, tmp.path(), index, retention, &clock, next_reopen_flushes(ops, 0));
		let tree = TreeBuilder::with_options(o).build().map_err(|e| format!("open failed [{name}]: {e}"))?;
		twins.push(Twin {
			name,
			index,
			dir: tmp.path().to_path_buf(),
			_tmp: Some(tmp),
			clock,
			tree: Some(tree),
			reader: None,
		});
	}
	let mut commits = 0u64;
	for i in 0..ops.len() {
		if ops[i]["op"] == "Commit" {
			commits += 1;
		}
		for tw in twins.iter_mut() {
			apply_op(tw, &rt, cfg, ops, i, retention, commits, false)?;
		}
	}
	let mut out = Outcome {
		viol: Vec::new(),
		drift: Vec::new(),
		judged: 0,
	};
	// the random cursor walks depend on the scenario and the seed only, so that a replay file reproduces them
	let _ = case_no;
	let mut h: u64 = 0xcbf29ce484222325;
	for b in sc["ops"].to_string().bytes() {
		h = (h ^ b as u64).wrapping_mul(0x100000001b3);
	}
	let mut rng = StdRng::seed_from_u64(cfg.seed.wrapping_mul(0x9E37_79B9).wrapping_add(h));
	for tw in twins.iter_mut() {
		let tree = tw.tree.as_ref().unwrap();
		let st = tree.verif_state();
		if st.visible_seq != latest.horizon {
			out.drift.push(json!({"kind":"visible","backend":tw.name,"spec":latest.horizon,"impl":st.visible_seq}));
		}
		if let Some(p) = &cfg.program {
			let t = tree.begin_with_mode(Mode::ReadOnly).map_err(|e| e.to_string())?;
			let f: Vec<&str> = p.split(';').collect();
			let unhex = |x: &str| -> Vec<u8> { (0..x.len() / 2).map(|i| u8::from_str_radix(&x[2 * i..2 * i + 2], 16).unwrap()).collect() };
			let o = HOpts {
				tomb: f[0] == "1",
				ts: if f[1] == "none" { None } else { let (a, b) = f[1].split_once('-').unwrap(); Some((a.parse().unwrap(), b.parse().unwrap())) },
				limit: if f[2] == "none" { None } else { Some(f[2].parse().unwrap()) },
			};
			let (lo, hi) = f[3].split_once(':').unwrap();
			let mut it = t.history_with_options(unhex(lo), unhex(hi), &hopts(&o)).map_err(|e| e.to_string())?;
			for step in f[4].split(',') {
				let r = match step {
					"seek_first" => it.seek_first(),
					"seek_last" => it.seek_last(),
					"next" => it.next(),
					"prev" => it.prev(),
					x if x.starts_with("hex:") => it.seek(&unhex(&x[4..])),
					x => it.seek(&key_bytes(x)),
				};
				let mut at = if it.valid() { obs_json(&cur(&it)).to_string() } else { "-".to_string() };
				if it.valid() && it.key().is_tombstone() {
					at.push_str(&format!(" value()={:?}", it.value().map_err(|e| e.to_string())));
				}
				println!("PROGRAM [{}] {step} -> {:?} at {at}", tw.name, r.map_err(|e| e.to_string()));
			}
			for k in ["k1", "k2", "k3"] {
				let g: Vec<String> = (0..6u64).map(|tq| match t.get_at(key_bytes(k), tq) {
					Ok(None) => "-".to_string(),
					Ok(Some(v)) => format!("v{}", decode_val(&v)),
					Err(e) => format!("ERR({e})"),
				}).collect();
				println!("PROGRAM [{}] get_at({k}, 0..5) = {}", tw.name, g.join(" "));
			}
			continue; // directed probe only: no judgement
		}
		{
			let t = tree.begin_with_mode(Mode::ReadOnly).map_err(|e| e.to_string())?;
			let (v, d, n) = observe(&t, &latest, tw.name, "latest", cfg, &mut rng);
			out.viol.extend(v);
			out.drift.extend(d);
			out.judged += n;
		}
		if let (Some(rv), Some(t)) = (&reader, tw.reader.as_ref()) {
			let (v, d, n) = observe(t, rv, tw.name, "reader", cfg, &mut rng);
			out.viol.extend(v);
			out.drift.extend(d);
			out.judged += n;
		}
		tw.reader = None;
	}
	for tw in twins.iter_mut() {
		if let Some(tree) = tw.tree.take() {
			let _ = rt.block_on(tree.close());
		}
	}
	Ok(out)
}

// ---------------------------------------------------------------------------------------------------------
// crash images

fn record(sc: &Value, cfg: &Cfg, dir: &str, index: bool) -> Result<(), String> {
	let rt = verif_harness::rt();
	let _g = rt.enter();
	let retention = sc["cfg"]["retention"].as_u64().unwrap_or(0);
	let ops = sc["ops"].as_array().unwrap();
	let clock = ManualClock::new(1);
	let o = options(cfg, std::path::Path::new(dir), index, retention, &clock, next_reopen_flushes(ops, 0));
	let tree = TreeBuilder::with_options(o).build().map_err(|e| format!("open failed: {e}"))?;
	let mut tw = Twin {
		name: if index { "index" } else { "lsm" },
		index,
		dir: dir.into(),
		_tmp: None,
		clock,
		tree: Some(tree),
		reader: None,
	};
	let mut commits = 0;
	for i in 0..ops.len() {
		if ops[i]["op"] == "Commit" {
			commits += 1;
		}
		apply_op(&mut tw, &rt, cfg, ops, i, retention, commits, true)?;
	}
	mark(&json!({"ev":"done"}).to_string());
	std::mem::forget(tw);
	Ok(())
}

fn judge_image(sc: &Value, cfg: &Cfg, dir: &str, index: bool) -> Result<Outcome, String> {
	let rt = verif_harness::rt();
	let _g = rt.enter();
	let retention = sc["cfg"]["retention"].as_u64().unwrap_or(0);
	let (latest, _) = views(sc);
	let clock = ManualClock::new(sc["expect"]["now"].as_u64().unwrap_or(0));
	let name = if index { "index" } else { "lsm" };
	let mut out = Outcome {
		viol: Vec::new(),
		drift: Vec::new(),
		judged: 0,
	};
	let mut rng = StdRng::seed_from_u64(cfg.seed);
	eprintln!("stage:open");
	let o = options(cfg, std::path::Path::new(dir), index, retention, &clock, false);
	let mut tree = match TreeBuilder::with_options(o).build() {
		Ok(t) => t,
		Err(e) => {
			out.viol.push(json!({"kind":"reopen_refused","backend":name,"mode":"crash","who":"recovered","detail":e.to_string(),
				"finite":retention>0,"ooo":false,"tainted":false,"ts_range":false,"limit":false}));
			return Ok(out);
		}
	};
	// generation by generation: as recovered; after one more flush; after a clean reopen
	for stage in ["recovered", "flushed", "reopened"] {
		eprintln!("stage:{stage}");
		match stage {
			"flushed" => tree.verif_flush().map_err(|e| format!("flush after recovery: {e}"))?,
			"reopened" => {
				rt.block_on(tree.close()).map_err(|e| format!("close after recovery: {e}"))?;
				drop(tree);
				let o = options(cfg, std::path::Path::new(dir), index, retention, &clock, false);
				tree = TreeBuilder::with_options(o).build().map_err(|e| format!("second reopen failed: {e}"))?;
			}
			_ => {}
		}
		let t = tree.begin_with_mode(Mode::ReadOnly).map_err(|e| e.to_string())?;
		let (v, d, n) = observe(&t, &latest, name, stage, cfg, &mut rng);
		for mut x in v {
			x["crash"] = json!(true);
			out.viol.push(x);
		}
		out.drift.extend(d);
		out.judged += n;
	}
	let _ = rt.block_on(tree.close());
	Ok(out)
}

// ---------------------------------------------------------------------------------------------------------

fn read_scenarios(path: &str) -> Vec<Value> {
	let f = std::fs::File::open(path).unwrap_or_else(|e| {
		eprintln!("cannot open {path}: {e}");
		std::process::exit(2)
	});
	let mut scenarios: Vec<Value> = Vec::new();
	for line in BufReader::new(f).lines() {
		let line = line.unwrap();
		let text: String = if line.starts_with("\"REPLAY ") {
			let s: String = serde_json::from_str(&line).unwrap();
			s["REPLAY ".len()..].to_string()
		} else if line.starts_with('{') {
			line
		} else {
			continue;
		};
		scenarios.push(serde_json::from_str(&text).unwrap());
	}
	scenarios
}

fn main() {
	let args: Vec<String> = std::env::args().collect();
	if args.len() < 2 {
		eprintln!("usage: history_run <file> | --record <scenario> --dir D --index on|off | --judge-image <scenario> --dir D --index on|off");
		std::process::exit(2);
	}
	let argval = |name: &str| args.iter().position(|a| a == name).and_then(|i| args.get(i + 1)).cloned();
	let flag = |name: &str| args.iter().any(|a| a == name);
	let cfg = Cfg {
		levels: argval("--levels").map(|s| s.parse().unwrap()).unwrap_or(2),
		block: argval("--block").map(|s| s.parse().unwrap()).unwrap_or(128),
		cache: argval("--cache").map(|s| s.parse().unwrap()),
		snappy: flag("--snappy"),
		nobloom: flag("--nobloom"),
		memtable: argval("--memtable").map(|s| s.parse().unwrap()).unwrap_or(1 << 20),
		vlog_file: argval("--vlog-file").map(|s| s.parse().unwrap()),
		walks: argval("--walks").map(|s| s.parse().unwrap()).unwrap_or(4),
		seed: argval("--seed").map(|s| s.parse().unwrap()).unwrap_or(1),
		only: argval("--only"),
		program: argval("--program"),
	};
	let jobs: usize = argval("--jobs").map(|s| s.parse().unwrap()).unwrap_or(8);
	verif_harness::quiet_panics();

	if let Some(p) = argval("--record") {
		let sc = read_scenarios(&p).into_iter().next().expect("scenario");
		let dir = argval("--dir").expect("--dir");
		let index = argval("--index").map(|s| s == "on").unwrap_or(true);
		let mut s = Summary::new("history_run");
		s.cases = 1;
		match verif_harness::catch(|| record(&sc, &cfg, &dir, index)) {
			Ok(Ok(())) => {}
			Ok(Err(e)) => s.violation(json!({"kind":"engine_error","mode":"record","error":e})),
			Err(p) => s.violation(json!({"kind":"panic","mode":"record","message":p})),
		}
		s.print();
		return;
	}
	if let Some(p) = argval("--judge-image") {
		let sc = read_scenarios(&p).into_iter().next().expect("scenario");
		let dir = argval("--dir").expect("--dir");
		let index = argval("--index").map(|s| s == "on").unwrap_or(true);
		let mut s = Summary::new("history_run");
		s.cases = 1;
		match verif_harness::catch(|| judge_image(&sc, &cfg, &dir, index)) {
			Ok(Ok(o)) => {
				s.steps = o.judged;
				let mut g = Groups::default();
				for v in o.viol {
					s.violation_count += 1;
					*s.violation_kinds.entry(v["kind"].as_str().unwrap_or("?").to_string()).or_insert(0) += 1;
					g.add(v, 0);
				}
				s.extra.insert("groups".into(), g.to_json());
				for d in o.drift {
					s.drift(d);
				}
			}
			Ok(Err(e)) => s.violation(json!({"kind":"engine_error","mode":"crash","backend":if index {"index"} else {"lsm"},"error":e})),
			Err(p) => s.violation(json!({"kind":"panic","mode":"crash","backend":if index {"index"} else {"lsm"},"message":p})),
		}
		s.print();
		return;
	}

	let scenarios = read_scenarios(&args[1]);
	let sum = Arc::new(Mutex::new(Summary::new("history_run")));
	let judged = Arc::new(AtomicU64::new(0));
	let next = Arc::new(AtomicU64::new(0));
	let scenarios = Arc::new(scenarios);
	let kinds: Arc<Mutex<BTreeMap<String, u64>>> = Arc::new(Mutex::new(BTreeMap::new()));
	let groups: Arc<Mutex<Groups>> = Arc::new(Mutex::new(Groups::default()));
	let mut hs = Vec::new();
	for _ in 0..jobs {
		let (sum, next, scenarios, cfg, judged, kinds, groups) =
			(sum.clone(), next.clone(), scenarios.clone(), cfg.clone(), judged.clone(), kinds.clone(), groups.clone());
		hs.push(std::thread::spawn(move || loop {
			let i = next.fetch_add(1, Ordering::SeqCst) as usize;
			if i >= scenarios.len() {
				break;
			}
			let sc = &scenarios[i];
			let res = verif_harness::catch(|| run_scenario(sc, &cfg, i as u64));
			let mut s = sum.lock().unwrap();
			s.cases += 1;
			let ops = sc["ops"].as_array().map(|a| a.len()).unwrap_or(0);
			s.steps += ops as u64;
			{
				let mut k = kinds.lock().unwrap();
				for op in sc["ops"].as_array().unwrap() {
					let name = if op["op"] == "Commit" {
						format!("Commit:{}", op["kind"].as_str().unwrap_or(""))
					} else {
						op["op"].as_str().unwrap_or("").to_string()
					};
					*k.entry(name).or_insert(0) += 1;
				}
			}
			if i % 3000 == 0 {
				s.sample(json!({"ops": sc["ops"], "cfg": sc["cfg"], "expect_latest": sc["expect"]["latest"]}));
			}
			match res {
				Ok(Ok(o)) => {
					judged.fetch_add(o.judged, Ordering::SeqCst);
					let mut g = groups.lock().unwrap();
					for mut v in o.viol {
						s.violation_count += 1;
						*s.violation_kinds.entry(v["kind"].as_str().unwrap_or("?").to_string()).or_insert(0) += 1;
						v["scenario"] = json!({"ops": sc["ops"], "cfg": sc["cfg"], "expect": sc["expect"]});
						g.add(v, ops);
					}
					for d in o.drift {
						s.drift(d);
					}
				}
				Ok(Err(e)) if e.starts_with("TOOL ") => {
					eprintln!("{e}");
					std::process::exit(2);
				}
				Ok(Err(e)) => s.violation(json!({"kind":"engine_error","mode":"replay","error":e,"scenario":sc})),
				Err(p) => s.violation(json!({"kind":"panic","mode":"replay","message":p,"scenario":sc})),
			}
		}));
	}
	for h in hs {
		let _ = h.join();
	}
	let mut s = sum.lock().unwrap();
	s.extra.insert("groups".into(), groups.lock().unwrap().to_json());
	s.extra.insert("options".into(), cfg_json(&cfg));
	s.extra.insert("answers_judged".into(), json!(judged.load(Ordering::SeqCst)));
	s.extra.insert("ops_executed".into(), json!(*kinds.lock().unwrap()));
	s.print();
}
