//! C01 / C06 / C10 — the compaction retention rule, spec <-> implementation.
//!
//! usage: retention_run <tlc-export-file> <out-trace.ndjson>
//!
//! Every case exported by TLC from spec/retention/RetentionMC.tla
//! ({vin:[{seq,kind,win}], snaps, bottom, versioning, finite, out:[...]}) is fed to the REAL
//! `CompactionIterator` (through surrealkv::verif::retention::compaction_filter). The real
//! output is written to <out-trace.ndjson>; RetentionTrace.tla (TLC) then evaluates the
//! property predicates on the real outputs. Here we only check output sanity (nothing
//! invented, strictly ordered, no panic) and count differences from the spec's prediction.

use std::io::{BufRead, BufReader, Write};

use serde_json::{json, Value};
use surrealkv::verif::retention::{compaction_filter, Ver};
use verif_harness::out::Summary;

const NOW: u64 = 1_000_000;
const RET: u64 = 1_000;

fn kind_code(k: &str) -> u8 {
	match k {
		"Del" => 0,
		"SoftDel" => 1,
		"Set" => 2,
		"Replace" => 6,
		_ => panic!("kind {k}"),
	}
}

fn main() {
	let args: Vec<String> = std::env::args().collect();
	if args.len() < 3 {
		eprintln!("usage: retention_run <tlc-export> <out.ndjson>");
		std::process::exit(2);
	}
	verif_harness::quiet_panics();
	let f = std::fs::File::open(&args[1]).unwrap_or_else(|e| {
		eprintln!("cannot open {}: {e}", args[1]);
		std::process::exit(2)
	});
	let mut out = std::io::BufWriter::new(std::fs::File::create(&args[2]).unwrap());
	let mut sum = Summary::new("retention_run");
	let mut distinct_outcomes = std::collections::HashSet::new();
	for line in BufReader::new(f).lines() {
		let line = line.unwrap();
		let text: String = if line.starts_with("\"REPLAY ") {
			let s: String = serde_json::from_str(&line).unwrap();
			s["REPLAY ".len()..].to_string()
		} else if line.starts_with('{') {
			line
		} else {
			continue;
		};
		let case: Value = serde_json::from_str(&text).unwrap();
		sum.cases += 1;
		let vin = case["vin"].as_array().unwrap();
		let finite = case["finite"].as_bool().unwrap();
		let versioning = case["versioning"].as_bool().unwrap();
		let bottom = case["bottom"].as_bool().unwrap();
		let mut snaps: Vec<u64> =
			case["snaps"].as_array().unwrap().iter().map(|x| x.as_u64().unwrap()).collect();
		snaps.sort();
		// two physical layouts: everything in one input table / alternating over two
		let mut outs: Vec<Vec<u64>> = Vec::new();
		let mut failed = false;
		for layout in 0..2usize {
			let input: Vec<Ver> = vin
				.iter()
				.enumerate()
				.map(|(i, v)| {
					let seq = v["seq"].as_u64().unwrap();
					Ver {
						key: b"k".to_vec(),
						seq,
						kind: kind_code(v["kind"].as_str().unwrap()),
						ts: if v["win"].as_bool().unwrap() {
							NOW - RET / 2
						} else {
							NOW - 5 * RET
						},
						value: format!("v{seq}").into_bytes(),
						source: if layout == 0 {
							0
						} else {
							i % 2
						},
					}
				})
				.collect();
			let res = verif_harness::catch(|| {
				compaction_filter(
					&input,
					snaps.clone(),
					bottom,
					versioning,
					if finite {
						RET
					} else {
						0
					},
					NOW,
				)
			});
			let got = match res {
				Ok(Ok(v)) => v,
				Ok(Err(e)) => {
					sum.violation(json!({"kind":"filter_error","error":e,"case":case}));
					failed = true;
					break;
				}
				Err(p) => {
					sum.violation(json!({"kind":"panic","message":p,"case":case}));
					failed = true;
					break;
				}
			};
			sum.steps += 1;
			// sanity: every emitted version is an input version, order strictly descending
			let mut seqs = Vec::new();
			for g in &got {
				let same = input.iter().any(|i| {
					i.seq == g.seq && i.kind == g.kind && i.ts == g.ts && i.key == g.key
						&& (g.kind == 0 || g.kind == 1 || i.value == g.value)
				});
				if !same {
					sum.violation(json!({"kind":"invented_version","seq":g.seq,"case":case}));
					failed = true;
				}
				seqs.push(g.seq);
			}
			if seqs.windows(2).any(|w| w[0] <= w[1]) {
				sum.violation(json!({"kind":"output_not_strictly_ordered","seqs":seqs,"case":case}));
				failed = true;
			}
			outs.push(seqs);
		}
		if failed {
			continue;
		}
		if outs[0] != outs[1] {
			sum.violation(json!({"kind":"layout_dependent_output","a":outs[0],"b":outs[1],"case":case}));
			continue;
		}
		let mut pred: Vec<u64> =
			case["out"].as_array().unwrap().iter().map(|v| v["seq"].as_u64().unwrap()).collect();
		pred.sort_by(|a, b| b.cmp(a));
		if pred != outs[0] {
			sum.drift(json!({"kind":"rule_differs_from_spec","spec":pred,"real":outs[0],"case":case}));
		}
		distinct_outcomes.insert(format!("{:?}{}{}{}", outs[0], bottom, versioning, finite));
		let rec = json!({"vin": vin, "snaps": snaps, "bottom": bottom, "versioning": versioning,
			"finite": finite, "real": outs[0]});
		writeln!(out, "{}", rec).unwrap();
		if sum.cases % 5000 == 1 {
			sum.sample(rec);
		}
	}
	out.flush().unwrap();
	sum.extra.insert("distinct_outcomes".into(), json!(distinct_outcomes.len()));
	sum.print();
}
