//! C02 directed scenario: a commit that has been logged but not yet applied while its memtable is rotated away and flushed
//! by someone else (spec/storage: Log / Rotate / FlushWal / WalDelete between a transaction's Log and Ack).
//!
//! usage: flush_race
//! Schedule (gate scheduler): T commits k1 (acknowledged). U: begin, set k2, commit -> parked at a yield point of the
//! pipeline. Meanwhile the active memtable is rotated and flushed (hooks; the flush spawns the WAL clean-up, which gets
//! time to run). U is released and acknowledged. The process "crashes": the directory is copied as it is (no close) and
//! the copy is opened: both acknowledged commits must be there.
use std::sync::{Arc, Mutex};
use std::time::Duration;

use serde_json::json;
use surrealkv::{Mode, Options, TreeBuilder};
use verif_harness::out::Summary;
use verif_harness::sched::{GateSink, Status};

fn copy_dir(from: &std::path::Path, to: &std::path::Path) {
	std::fs::create_dir_all(to).unwrap();
	for e in std::fs::read_dir(from).unwrap().flatten() {
		let p = e.path();
		let q = to.join(e.file_name());
		if p.is_dir() {
			copy_dir(&p, &q);
		} else {
			let _ = std::fs::copy(&p, &q);
		}
	}
}

fn main() {
	verif_harness::quiet_panics();
	let sink = GateSink::install();
	let mut sum = Summary::new("flush_race");
	for mode in ["flush_all", "rotate_flush_one", "rotate_only"] {
		for park_at in ["commit.permit", "commit.logged", "commit.applied", "commit.marked"] {
			sum.cases += 1;
			let dir = verif_harness::scratch_dir("frace");
			let rt = verif_harness::rt_multi(2);
			let _g = rt.enter();
			let mut opts = Options::new().with_path(dir.path().join("db"));
			opts.level0_max_files = 64;
			let opts = opts.with_l0_stall_threshold(64);
			let tree = TreeBuilder::with_options(opts.clone()).build().expect("open");
			{
				let mut t = tree.begin().unwrap();
				t.set(b"k1", b"v1").unwrap();
				rt.block_on(t.commit()).unwrap();
			}
			let token = 8000 + sum.cases;
			let res: Arc<Mutex<Option<Result<(), String>>>> = Arc::new(Mutex::new(None));
			let (t2, res2, sink2) = (tree.clone(), res.clone(), sink.clone());
			let h = std::thread::spawn(move || {
				GateSink::enroll(token);
				let rt = verif_harness::rt();
				let mut u = t2.begin().unwrap();
				u.set(b"k2", b"v2").unwrap();
				let r = rt.block_on(u.commit()).map_err(|e| e.to_string());
				*res2.lock().unwrap() = Some(r);
				drop(u);
				drop(t2);
				sink2.finish(token);
			});
			let mut reached = false;
			for _ in 0..20 {
				match sink.status(token, Duration::from_secs(10)) {
					Status::Parked(site, _) if site == park_at => {
						reached = true;
						break;
					}
					Status::Parked(_, _) => sink.release(token),
					_ => break,
				}
			}
			if !reached {
				sum.drift(json!({"kind":"yield_point_not_reached","site":park_at}));
			}
			// somebody else rotates (and flushes) underneath
			let r = match mode {
				"flush_all" => tree.verif_flush(),
				"rotate_flush_one" => tree.verif_rotate().and_then(|_| tree.verif_flush_one()),
				_ => tree.verif_rotate(),
			};
			if let Err(e) = r {
				sum.drift(json!({"kind":"rotation_failed","error":e.to_string(),"mode":mode}));
			}
			// the WAL clean-up is a spawned task
			std::thread::sleep(Duration::from_millis(60));
			for _ in 0..40 {
				match sink.status(token, Duration::from_millis(500)) {
					Status::Done => break,
					Status::Parked(_, _) => sink.release(token),
					Status::Timeout => {}
				}
			}
			let _ = h.join();
			let ures = res.lock().unwrap().clone();
			if ures.is_none() {
				sum.violation(json!({"kind":"commit_never_returns","parked_at":park_at,"mode":mode}));
				continue;
			}
			std::thread::sleep(Duration::from_millis(30));
			// process crash: what the files hold now
			let img = dir.path().join("img");
			copy_dir(&dir.path().join("db"), &img);
			// fresh Options: a clone would share the block cache between two stores with the same table ids
			let mut o2 = Options::new().with_path(img.clone());
			o2.level0_max_files = 64;
			let o2 = o2.with_l0_stall_threshold(64);
			match TreeBuilder::with_options(o2).build() {
				Ok(t4) => {
					let r = t4.begin_with_mode(Mode::ReadOnly).unwrap();
					let (k1, k2) = (r.get(b"k1").unwrap(), r.get(b"k2").unwrap());
					let acked = matches!(ures, Some(Ok(())));
					if k1.is_none() {
						sum.violation(json!({"kind":"acknowledged_commit_lost","key":"k1","parked_at":park_at,"mode":mode}));
					}
					if acked && k2.is_none() {
						sum.violation(json!({"kind":"acknowledged_commit_lost","key":"k2","parked_at":park_at,"mode":mode}));
					}
					sum.sample(json!({"parked_at":park_at,"mode":mode,"commit":format!("{:?}",ures),"k2_after_crash":k2.is_some()}));
					drop(r);
					let _ = rt.block_on(t4.close());
					std::mem::forget(t4);
				}
				Err(e) => sum.violation(json!({"kind":"reopen_refused","error":e.to_string(),"parked_at":park_at,"mode":mode})),
			}
			let _ = rt.block_on(tree.close());
			std::mem::forget(tree);
		}
	}
	sum.print();
}
