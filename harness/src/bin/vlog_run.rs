//! C11 (separated large values stay intact and reachable): driver for spec/vlog.
//!
//! usage:
//!   vlog_run replay <tlc-export-or-ndjson> [--thr N] [--filecap C] [--levels N] [--versioning] [--finite]
//!                   [--index] [--cache BYTES] [--full-checksum] [--plan N] [--jobs N]
//!       executes scenarios exported by TLC from spec/vlog/VlogMC.tla on a real Tree and judges, after the
//!       last step: (a) Reachable - every pointer found by the read-only walk of the live tables and the
//!       versioned index resolves in the directory (file there, long enough, the bytes there are the entry
//!       that was written); (b) Intact - every read of every open reader, of pinned range / history
//!       cursors and of a fresh reader returns byte-for-byte the value the property prescribes.
//!       The model's prediction of files / pointers / active writer is compared as conformance (drift).
//!   vlog_run record --dir D --meta M --seed N [...]     seeded workload under shim/fsrec.so (crash images)
//!   vlog_run reopen <dir> '<opts-json>' '<meta.json>'    child process: open an image, judge what it holds
//!
//! Scenario: {"ops":[{"op","a","b"}...], "expect":{latest:{k:seq}, readers:{r:{open,snap,cursor,reads:{k:seq}}},
//!            files:[..], active, nextId, minOldest, ptrs:[[k,seq,f,i]..], inline:[[k,seq]..], idx:[..]}}
//! A value's identity is the sequence number of the commit that wrote it (0 = absent).

use std::collections::{BTreeMap, BTreeSet, HashMap};
use std::ffi::CString;
use std::io::{BufRead, BufReader};
use std::path::{Path, PathBuf};
use std::sync::atomic::{AtomicBool, AtomicU64, Ordering};
use std::sync::{Arc, Mutex};
use std::time::{Duration, Instant};

use rand::rngs::StdRng;
use rand::{Rng, SeedableRng};
use serde_json::{json, Value};
use surrealkv::verif::clock::ManualClock;
use surrealkv::verif::vlog::VlogWalk;
use surrealkv::{Durability, LSMIterator, Mode, Options, Transaction, Tree, TreeBuilder, VLogChecksumLevel};
use verif_harness::keys::{hex, key_bytes};
use verif_harness::out::Summary;
use verif_harness::sched::GateSink;

const HEADER: u64 = 31; // VLogFileHeader::SIZE
const WINDOW: u64 = 1_000_000; // retention window (ns) of the finite-retention configurations

#[derive(Clone, Debug)]
struct Cfg {
	thr: usize,
	filecap: u64, // entries per value-log file: 1, 2, 0 = never rotates
	levels: u8,
	versioning: bool,
	finite: bool,
	index: bool,
	cache: u64,
	full_checksum: bool,
	plan: u64,
	block: usize,
}

impl Cfg {
	fn json(&self) -> Value {
		json!({"thr": self.thr, "filecap": self.filecap, "levels": self.levels, "versioning": self.versioning,
			"finite": self.finite, "index": self.index, "cache": self.cache, "full_checksum": self.full_checksum,
			"plan": self.plan, "block": self.block})
	}
}

/// Deterministic value bytes: "<seq>:<len>|" (cut to len) followed by a pseudo-random body that contains
/// 0x00 / 0xff and, first of all, two bytes that look like the header of an encoded pointer.
fn value_bytes(seq: u64, len: usize) -> Vec<u8> {
	let mut v: Vec<u8> = Vec::with_capacity(len);
	// an inline value that starts like an encoded ValueLocation { meta: POINTER, version: 1, .. }
	let head = format!("\x01\x01{seq}:{len}|");
	v.extend_from_slice(&head.as_bytes()[..head.len().min(len)]);
	let mut x = seq.wrapping_mul(0x9E3779B97F4A7C15) ^ (len as u64) ^ 0xD1B54A32D192ED03;
	while v.len() < len {
		x ^= x << 13;
		x ^= x >> 7;
		x ^= x << 17;
		v.push((x & 0xff) as u8);
	}
	v
}

/// Length of the value of commit `seq` for a size class ("SetB" = separated, "SetS" = inline).
fn pick_len(cfg: &Cfg, class: &str, seq: u64, scenario: u64) -> usize {
	let t = cfg.thr;
	let sel = (seq + cfg.plan + scenario) as usize;
	if class == "SetS" {
		let mut c: Vec<usize> = vec![0, t.saturating_sub(1), t];
		if t >= 27 {
			c.push(27); // exactly the size of an encoded pointer location
		}
		c.sort_unstable();
		c.dedup();
		c[sel % c.len()]
	} else {
		if cfg.filecap == 2 {
			// rotation after exactly two entries needs entries of (almost) one size
			return t + 1 + (cfg.plan as usize % 3) * cfg.block;
		}
		let c = [t + 1, t + 2, 3 * cfg.block + 7 + t, 5000 + t];
		c[sel % c.len()]
	}
}

fn options(dir: &Path, cfg: &Cfg, clock: &Arc<ManualClock>) -> Options {
	let mut o = Options::new()
		.with_path(dir.to_path_buf())
		.with_level_count(cfg.levels)
		.with_max_memtable_size(4 << 20)
		.with_block_size(cfg.block)
		.with_index_partition_size(64)
		.with_l0_stall_threshold(64)
		.with_memtable_stall_threshold(64)
		.with_block_cache_capacity(cfg.cache)
		.with_flush_on_close(false)
		.without_compression()
		.with_verif_clock(clock.clone());
	o.level0_max_files = 64; // nothing happens behind the scenario's back
	o = o.with_enable_vlog(true);
	if cfg.versioning {
		o = o.with_versioning(true, if cfg.finite { WINDOW } else { 0 });
		if cfg.index {
			o = o.with_versioned_index(true);
		}
	} else {
		o = o.with_vlog_value_threshold(cfg.thr);
	}
	if cfg.full_checksum {
		o = o.with_vlog_checksum_verification(VLogChecksumLevel::Full);
	}
	// entry = 8 + (user key + 16) + value + 4; keys are 1..3 bytes long
	let max = match cfg.filecap {
		0 => 1u64 << 40,
		1 => HEADER + 1,
		n => {
			let l = pick_len(cfg, "SetB", 0, 0) as u64;
			HEADER + n * (8 + 17 + l + 4)
		}
	};
	o.with_vlog_max_file_size(max)
}

#[derive(Clone, Debug)]
struct CommitRec {
	key: String,
	kind: String, // "Set" | "Del"
	len: usize,
}

struct ReaderSt {
	txn: Option<&'static Transaction>,
	raw: *mut Transaction,
	cursor: Option<Box<dyn LSMIterator + 'static>>,
	cursor_kind: String,
}

impl Default for ReaderSt {
	fn default() -> Self {
		ReaderSt { txn: None, raw: std::ptr::null_mut(), cursor: None, cursor_kind: "none".into() }
	}
}

impl ReaderSt {
	fn end(&mut self) {
		self.cursor = None;
		self.txn = None;
		if !self.raw.is_null() {
			// SAFETY: raw came from Box::into_raw and every borrow derived from it is gone
			unsafe { drop(Box::from_raw(self.raw)) };
			self.raw = std::ptr::null_mut();
		}
	}
}

static TOKEN: AtomicU64 = AtomicU64::new(1);

/// A maintenance call running on its own thread, parked at a gate.
struct Parked {
	token: u64,
	handle: std::thread::JoinHandle<Result<(), String>>,
	reached: bool,
}

fn start_parked(tree: &Tree, sink: &Arc<GateSink>, site: &'static str, level: Option<u8>) -> Result<Parked, String> {
	let token = TOKEN.fetch_add(1, Ordering::SeqCst);
	let t2 = tree.clone();
	let done = Arc::new(AtomicBool::new(false));
	let d2 = done.clone();
	let handle = std::thread::spawn(move || {
		let rt = verif_harness::rt();
		let _g = rt.enter();
		GateSink::arm(site, token);
		let r = verif_harness::catch(|| match level {
			None => t2.verif_flush_one().map_err(|e| e.to_string()),
			Some(l) => t2.verif_compact(l).map_err(|e| e.to_string()),
		});
		GateSink::disarm();
		d2.store(true, Ordering::SeqCst);
		drop(t2);
		match r {
			Ok(x) => x,
			Err(p) => Err(format!("panic: {p}")),
		}
	});
	let t0 = Instant::now();
	loop {
		if sink.wait_parked(token, Duration::from_millis(5)) {
			return Ok(Parked { token, handle, reached: true });
		}
		if done.load(Ordering::SeqCst) {
			return Ok(Parked { token, handle, reached: false });
		}
		if t0.elapsed() > Duration::from_secs(30) {
			return Err(format!("maintenance thread neither reached {site} nor finished"));
		}
	}
}

fn finish_parked(p: Parked, sink: &Arc<GateSink>) -> Result<(), String> {
	if p.reached {
		sink.release(p.token);
	}
	p.handle.join().map_err(|_| "maintenance thread panicked".to_string())?
}

/// Entries of a value-log file as they lie on disk: offset -> (ordinal, key bytes, value bytes)
fn parse_vlog_file(path: &Path) -> Vec<(u64, Vec<u8>, Vec<u8>)> {
	let d = std::fs::read(path).unwrap_or_default();
	let mut out = Vec::new();
	let mut off = HEADER as usize;
	while off + 8 <= d.len() {
		let kl = u32::from_be_bytes([d[off], d[off + 1], d[off + 2], d[off + 3]]) as usize;
		let vl = u32::from_be_bytes([d[off + 4], d[off + 5], d[off + 6], d[off + 7]]) as usize;
		let end = off + 8 + kl + vl + 4;
		if end > d.len() {
			break;
		}
		out.push((off as u64, d[off + 8..off + 8 + kl].to_vec(), d[off + 8 + kl..off + 8 + kl + vl].to_vec()));
		off = end;
	}
	out
}

fn vlog_path(dir: &Path, id: u32) -> PathBuf {
	dir.join("vlog").join(format!("{:020}.vlog", id))
}

/// Reachable, judged on what is on disk: every pointer of the walk must resolve to the entry that was written.
/// `expected(user_key, seq)` gives the bytes that version carries (None: the driver does not know the version).
fn judge_walk(
	dir: &Path,
	w: &VlogWalk,
	expected: &dyn Fn(&[u8], u64) -> Option<Vec<u8>>,
	viol: &mut Vec<Value>,
) {
	let files: HashMap<u32, u64> = w.dir_files.iter().cloned().collect();
	let mut cache: HashMap<u32, Vec<u8>> = HashMap::new();
	for (origin, list) in [("table", &w.entries), ("index", &w.index_entries)] {
		for e in list.iter().filter(|e| e.pointer) {
			let total = 8 + e.key_size as u64 + e.value_size as u64 + 4;
			let base = json!({"origin": origin, "table": e.table_id, "key": hex(&e.user_key), "seq": e.seq,
				"file": e.file_id, "offset": e.offset, "value_size": e.value_size});
			let Some(flen) = files.get(&e.file_id) else {
				let mut v = base.clone();
				v["kind"] = json!(format!("{origin}_pointer_file_missing"));
				viol.push(v);
				continue;
			};
			if e.offset + total > *flen {
				let mut v = base.clone();
				v["kind"] = json!(format!("{origin}_pointer_beyond_file"));
				v["file_len"] = json!(flen);
				viol.push(v);
				continue;
			}
			let data = cache
				.entry(e.file_id)
				.or_insert_with(|| std::fs::read(vlog_path(dir, e.file_id)).unwrap_or_default());
			let o = e.offset as usize;
			if data.len() < o + total as usize {
				// the file has gone since the walk (a background compaction cleaned it up): the walk was a
				// consistent cut and said it was there; the bytes can no longer be judged
				continue;
			}
			let vs = o + 8 + e.key_size as usize;
			let stored = &data[vs..vs + e.value_size as usize];
			let kl = u32::from_be_bytes([data[o], data[o + 1], data[o + 2], data[o + 3]]);
			let vl = u32::from_be_bytes([data[o + 4], data[o + 5], data[o + 6], data[o + 7]]);
			let want = expected(&e.user_key, e.seq);
			let ok = kl == e.key_size && vl == e.value_size && want.as_deref().map(|w| w == stored).unwrap_or(true);
			if !ok {
				let mut v = base.clone();
				v["kind"] = json!(format!("{origin}_pointer_wrong_bytes"));
				viol.push(v);
			}
		}
	}
}

fn scan_all(it: &mut dyn LSMIterator, forward: bool) -> Result<Vec<(Vec<u8>, u64, bool, Result<Vec<u8>, String>)>, String> {
	let mut out = Vec::new();
	let mut ok = if forward { it.seek_first() } else { it.seek_last() }.map_err(|e| e.to_string())?;
	let mut n = 0;
	while ok && it.valid() {
		let k = it.key();
		let (uk, seq, tomb) = (k.user_key().to_vec(), k.seq_num(), k.is_tombstone());
		let v = if tomb { Ok(Vec::new()) } else { it.value().map_err(|e| e.to_string()) };
		out.push((uk, seq, tomb, v));
		ok = if forward { it.next() } else { it.prev() }.map_err(|e| e.to_string())?;
		n += 1;
		if n > 10_000 {
			return Err("cursor does not terminate".into());
		}
	}
	Ok(out)
}

/// continue a cursor that is already positioned (pinned cursors are positioned on their first entry)
fn drain(it: &mut dyn LSMIterator) -> Result<Vec<(Vec<u8>, u64, bool, Result<Vec<u8>, String>)>, String> {
	let mut out = Vec::new();
	let mut n = 0;
	while it.valid() {
		let k = it.key();
		let (uk, seq, tomb) = (k.user_key().to_vec(), k.seq_num(), k.is_tombstone());
		let v = if tomb { Ok(Vec::new()) } else { it.value().map_err(|e| e.to_string()) };
		out.push((uk, seq, tomb, v));
		if !it.next().map_err(|e| e.to_string())? {
			break;
		}
		n += 1;
		if n > 10_000 {
			return Err("cursor does not terminate".into());
		}
	}
	Ok(out)
}

fn short(e: &str) -> String {
	e.chars().take(220).collect()
}

fn err_class(e: &str) -> &'static str {
	if e.contains("No such file") || e.contains("Failed to open VLog file") {
		"file_missing"
	} else if e.contains("CRC32") || e.contains("Header size mismatch") {
		"wrong_bytes"
	} else {
		"other"
	}
}

struct Run {
	commits: Vec<CommitRec>,
	keymap: BTreeMap<Vec<u8>, String>,
}

impl Run {
	fn bytes_of(&self, seq: u64) -> Option<Vec<u8>> {
		let c = self.commits.get(seq as usize - 1)?;
		if c.kind == "Set" {
			Some(value_bytes(seq, c.len))
		} else {
			None
		}
	}
	fn expected_version(&self, user_key: &[u8], seq: u64) -> Option<Vec<u8>> {
		if seq == 0 || seq as usize > self.commits.len() {
			return None;
		}
		let c = &self.commits[seq as usize - 1];
		if key_bytes(&c.key) != user_key {
			return None;
		}
		self.bytes_of(seq)
	}
	/// which commit wrote these bytes for this key, if any (for diagnostics)
	fn identify(&self, user_key: &[u8], got: &[u8]) -> String {
		for (i, c) in self.commits.iter().enumerate() {
			if c.kind == "Set" && key_bytes(&c.key) == user_key && value_bytes(i as u64 + 1, c.len) == got {
				return format!("seq{}", i + 1);
			}
		}
		format!("unknown({} bytes)", got.len())
	}

	/// all reads of one transaction against the identities the property prescribes
	fn check_reads(&self, who: &str, t: &Transaction, reads: &Value, viol: &mut Vec<Value>) {
		let mut want_map: BTreeMap<Vec<u8>, u64> = BTreeMap::new();
		for (k, v) in reads.as_object().unwrap() {
			let want = v.as_u64().unwrap();
			let kb = key_bytes(k);
			if want != 0 {
				want_map.insert(kb.clone(), want);
			}
			match t.get(&kb) {
				Err(e) => viol.push(json!({"kind":"get_error","who":who,"key":k,"want":want,
					"cause":err_class(&e.to_string()),"error":short(&e.to_string())})),
				Ok(got) => {
					let exp = if want == 0 { None } else { self.bytes_of(want) };
					if got != exp {
						let g = got.as_ref().map(|g| self.identify(&kb, g)).unwrap_or("absent".into());
						let kind = if got.is_none() {
							"get_missing_value"
						} else if g.starts_with("seq") {
							"get_wrong_version"
						} else {
							"get_corrupt_value"
						};
						viol.push(json!({"kind":kind,"who":who,"key":k,"want":want,"got":g}));
					}
				}
			}
		}
		for fwd in [true, false] {
			let res = t.range(b"\x00".to_vec(), b"\xff\xff".to_vec()).map_err(|e| e.to_string()).and_then(|mut it| scan_all(&mut it, fwd));
			match res {
				Err(e) => viol.push(json!({"kind":"scan_error","who":who,"forward":fwd,"error":short(&e)})),
				Ok(rows) => self.check_rows(who, "scan", &rows, &want_map, viol),
			}
		}
	}

	fn check_rows(
		&self,
		who: &str,
		what: &str,
		rows: &[(Vec<u8>, u64, bool, Result<Vec<u8>, String>)],
		want_map: &BTreeMap<Vec<u8>, u64>,
		viol: &mut Vec<Value>,
	) {
		let mut seen: BTreeSet<Vec<u8>> = BTreeSet::new();
		for (uk, seq, _tomb, v) in rows {
			let kname = self.keymap.get(uk).cloned().unwrap_or_else(|| hex(uk));
			seen.insert(uk.clone());
			let want = want_map.get(uk).copied().unwrap_or(0);
			match v {
				Err(e) => viol.push(json!({"kind":format!("{what}_value_error"),"who":who,"key":kname,"seq":seq,"want":want,
					"cause":err_class(e),"error":short(e)})),
				Ok(got) => {
					let exp = if want == 0 { None } else { self.bytes_of(want) };
					if exp.as_ref() != Some(got) {
						let g = self.identify(uk, got);
						let kind = if want == 0 {
							format!("{what}_unexpected_key")
						} else if g.starts_with("seq") {
							format!("{what}_wrong_version")
						} else {
							format!("{what}_corrupt_value")
						};
						viol.push(json!({"kind":kind,"who":who,"key":kname,"want":want,"got":g}));
					}
				}
			}
		}
		for (uk, want) in want_map {
			if !seen.contains(uk) {
				let kname = self.keymap.get(uk).cloned().unwrap_or_else(|| hex(uk));
				viol.push(json!({"kind":format!("{what}_missing_value"),"who":who,"key":kname,"want":want}));
			}
		}
	}

	/// a history listing: whatever it lists must carry the bytes that version was written with
	fn check_history(
		&self,
		who: &str,
		what: &str,
		rows: &[(Vec<u8>, u64, bool, Result<Vec<u8>, String>)],
		viol: &mut Vec<Value>,
	) {
		for (uk, seq, tomb, v) in rows {
			if *tomb {
				continue;
			}
			let kname = self.keymap.get(uk).cloned().unwrap_or_else(|| hex(uk));
			match v {
				Err(e) => viol.push(json!({"kind":format!("{what}_value_error"),"who":who,"key":kname,"seq":seq,
					"cause":err_class(e),"error":short(e)})),
				Ok(got) => match self.expected_version(uk, *seq) {
					Some(exp) if &exp == got => {}
					Some(_) => viol.push(json!({"kind":format!("{what}_corrupt_value"),"who":who,"key":kname,"seq":seq,
						"got":self.identify(uk, got)})),
					None => viol.push(json!({"kind":format!("{what}_unknown_version"),"who":who,"key":kname,"seq":seq})),
				},
			}
		}
	}
}

fn run_scenario(sc: &Value, idx: u64, cfg: &Cfg, sink: &Arc<GateSink>) -> Result<(Vec<Value>, Vec<Value>, Value), String> {
	let mut viol = Vec::new();
	let mut drift = Vec::new();
	let dir = verif_harness::scratch_dir("vlog");
	let rt = verif_harness::rt();
	let _g = rt.enter();
	let clock = ManualClock::new(1_000_000_000);
	let opts = options(dir.path(), cfg, &clock);
	if let Err(e) = opts.validate() {
		eprintln!("driver configuration rejected by Options::validate: {e}");
		std::process::exit(2);
	}
	let mut tree: Tree = TreeBuilder::with_options(opts.clone()).build().map_err(|e| format!("open failed: {e}"))?;
	let mut run = Run { commits: Vec::new(), keymap: BTreeMap::new() };
	for k in ["k1", "k2", "k3", "k4"] {
		run.keymap.insert(key_bytes(k), k.to_string());
	}
	let mut readers: HashMap<String, ReaderSt> = HashMap::new();
	let mut flush: Option<Parked> = None;
	let mut compact: Option<Parked> = None;
	let ops = sc["ops"].as_array().unwrap();
	let mut stats = json!({"flush_not_parked": 0, "compact_not_parked": 0});
	for (i, op) in ops.iter().enumerate() {
		let name = op["op"].as_str().unwrap();
		let a = op["a"].as_str().unwrap_or("");
		let b = op["b"].as_str().unwrap_or("");
		let fail = |e: String| format!("step {i} {name}: {e}");
		match name {
			"Commit" => {
				let seq = run.commits.len() as u64 + 1;
				clock.set(clock.get() + 10);
				let mut t = tree.begin().map_err(|e| fail(e.to_string()))?;
				let k = key_bytes(a);
				if b == "Del" {
					t.delete(k).map_err(|e| fail(e.to_string()))?;
					run.commits.push(CommitRec { key: a.into(), kind: "Del".into(), len: 0 });
				} else {
					let len = pick_len(cfg, b, seq, idx);
					t.set(k, value_bytes(seq, len)).map_err(|e| fail(e.to_string()))?;
					run.commits.push(CommitRec { key: a.into(), kind: "Set".into(), len });
				}
				rt.block_on(t.commit()).map_err(|e| fail(e.to_string()))?;
			}
			"Tick" => clock.set(clock.get() + WINDOW + 1000),
			"Rotate" => tree.verif_rotate().map_err(|e| fail(e.to_string()))?,
			"Flush" => tree.verif_flush_one().map_err(|e| fail(e.to_string()))?,
			"FlushWrite" => {
				let p = start_parked(&tree, sink, "flush.written", None).map_err(fail)?;
				if !p.reached {
					stats["flush_not_parked"] = json!(stats["flush_not_parked"].as_u64().unwrap() + 1);
					drift.push(json!({"kind":"flush_not_parked","step":i,"ops":sc["ops"]}));
				}
				flush = Some(p);
			}
			"FlushInstall" => {
				let p = flush.take().ok_or_else(|| fail("no flush in progress".into()))?;
				finish_parked(p, sink).map_err(fail)?;
			}
			"Compact" => tree.verif_compact(a.parse().unwrap()).map_err(|e| fail(e.to_string()))?,
			"CompactWrite" => {
				let p = start_parked(&tree, sink, "compact.written", Some(a.parse().unwrap())).map_err(fail)?;
				if !p.reached {
					stats["compact_not_parked"] = json!(stats["compact_not_parked"].as_u64().unwrap() + 1);
				}
				compact = Some(p);
			}
			"CompactInstall" => {
				let p = compact.take().ok_or_else(|| fail("no compaction in progress".into()))?;
				finish_parked(p, sink).map_err(fail)?;
			}
			"Begin" => {
				let t = tree.begin_with_mode(Mode::ReadOnly).map_err(|e| fail(e.to_string()))?;
				let r = readers.entry(a.to_string()).or_default();
				let raw = Box::into_raw(Box::new(t));
				r.raw = raw;
				// SAFETY: the box lives until ReaderSt::end
				r.txn = Some(unsafe { &*raw });
			}
			"OpenCursor" => {
				let r = readers.get_mut(a).ok_or_else(|| fail("unknown reader".into()))?;
				let t = r.txn.ok_or_else(|| fail("not open".into()))?;
				let mut it: Box<dyn LSMIterator + 'static> = if b == "hist" {
					Box::new(t.history(b"\x00".to_vec(), b"\xff\xff".to_vec()).map_err(|e| fail(e.to_string()))?)
				} else {
					Box::new(t.range(b"\x00".to_vec(), b"\xff\xff".to_vec()).map_err(|e| fail(e.to_string()))?)
				};
				it.seek_first().map_err(|e| fail(e.to_string()))?;
				r.cursor = Some(it);
				r.cursor_kind = b.to_string();
			}
			"CloseCursor" => {
				let r = readers.get_mut(a).ok_or_else(|| fail("unknown reader".into()))?;
				r.cursor = None;
				r.cursor_kind = "none".into();
			}
			"End" => readers.get_mut(a).ok_or_else(|| fail("unknown reader".into()))?.end(),
			"Reopen" => {
				rt.block_on(tree.close()).map_err(|e| fail(format!("close: {e}")))?;
				drop(tree);
				tree = TreeBuilder::with_options(opts.clone()).build().map_err(|e| fail(format!("reopen failed: {e}")))?;
			}
			_ => return Err(fail("unknown op".into())),
		}
	}

	// ---- observations (only now: a read would leave the value in the block cache and a handle in the
	// handle cache, hiding what a later step does to the files) -------------------------------------
	let exp = &sc["expect"];
	let walk = tree.verif_vlog_pointers().map_err(|e| format!("walk: {e}"))?;
	judge_walk(dir.path(), &walk, &|k, s| run.expected_version(k, s), &mut viol);
	if walk.active_writer_id != 0 && !walk.dir_files.iter().any(|(id, _)| *id == walk.active_writer_id) {
		viol.push(json!({"kind":"active_file_missing","active":walk.active_writer_id}));
	}

	let no_readers = serde_json::Map::new();
	for (rname, r) in exp["readers"].as_object().unwrap_or(&no_readers) {
		if !r["open"].as_bool().unwrap() {
			continue;
		}
		let st = readers.get_mut(rname).ok_or("reader missing")?;
		let t = st.txn.ok_or("reader not open in driver")?;
		// pinned cursor first (nothing has been read yet)
		if let Some(cur) = st.cursor.as_mut() {
			let who = format!("{rname}.pinned_{}", st.cursor_kind);
			match drain(cur.as_mut()) {
				Err(e) => viol.push(json!({"kind":"pinned_cursor_error","who":who,"error":short(&e)})),
				Ok(rows) => {
					if st.cursor_kind == "hist" {
						run.check_history(&who, "pinned_history", &rows, &mut viol);
					} else {
						let mut want_map = BTreeMap::new();
						for (k, v) in r["reads"].as_object().unwrap() {
							if v.as_u64().unwrap() != 0 {
								want_map.insert(key_bytes(k), v.as_u64().unwrap());
							}
						}
						run.check_rows(&who, "pinned_range", &rows, &want_map, &mut viol);
					}
				}
			}
		}
		run.check_reads(rname, t, &r["reads"], &mut viol);
		if cfg.versioning && st.cursor.is_none() {
			match t.history(b"\x00".to_vec(), b"\xff\xff".to_vec()).map_err(|e| e.to_string()).and_then(|mut it| scan_all(&mut it, true)) {
				Err(e) => viol.push(json!({"kind":"history_error","who":rname,"error":short(&e)})),
				Ok(rows) => run.check_history(rname, "history", &rows, &mut viol),
			}
		}
	}
	let held = readers.values().any(|r| r.cursor.is_some());
	{
		let t = tree.begin_with_mode(Mode::ReadOnly).map_err(|e| e.to_string())?;
		run.check_reads("latest", &t, &exp["latest"], &mut viol);
		// with the index, a history listing takes the index lock: not while a pinned cursor of this thread holds it
		if cfg.versioning && !(cfg.index && held) {
			match t.history(b"\x00".to_vec(), b"\xff\xff".to_vec()).map_err(|e| e.to_string()).and_then(|mut it| scan_all(&mut it, true)) {
				Err(e) => viol.push(json!({"kind":"history_error","who":"latest","error":short(&e)})),
				Ok(rows) => run.check_history("latest", "history", &rows, &mut viol),
			}
		}
	}

	// ---- conformance: the model's prediction of the bookkeeping (never a verdict) ----------------------
	let in_flight = exp["flushing"].as_bool().unwrap_or(false) || exp["compacting"].as_bool().unwrap_or(false);
	let mut want_files: Vec<u64> = exp["files"].as_array().unwrap().iter().map(|x| x.as_u64().unwrap()).collect();
	want_files.sort_unstable();
	let got_files: Vec<u64> = walk.dir_files.iter().map(|(id, _)| *id as u64).collect();
	if want_files != got_files {
		drift.push(json!({"kind":"files","spec":want_files,"impl":got_files}));
	}
	if exp["active"].as_u64().unwrap() != walk.active_writer_id as u64 {
		drift.push(json!({"kind":"active","spec":exp["active"],"impl":walk.active_writer_id}));
	}
	if exp["nextId"].as_u64().unwrap() != walk.next_file_id as u64 {
		drift.push(json!({"kind":"next_id","spec":exp["nextId"],"impl":walk.next_file_id}));
	}
	if exp["minOldest"].as_u64().unwrap() != walk.min_oldest as u64 {
		drift.push(json!({"kind":"min_oldest","spec":exp["minOldest"],"impl":walk.min_oldest}));
	}
	// pointers as (key, seq, file, ordinal in file)
	let mut ordinal: HashMap<(u32, u64), u64> = HashMap::new();
	for (id, _) in &walk.dir_files {
		for (n, (off, _, _)) in parse_vlog_file(&vlog_path(dir.path(), *id)).iter().enumerate() {
			ordinal.insert((*id, *off), n as u64 + 1);
		}
	}
	for (field, list, label) in [("ptrs", &walk.entries, "ptrs"), ("idx", &walk.index_entries, "index_ptrs")] {
		let mut want: BTreeSet<(String, u64, u64, u64)> = BTreeSet::new();
		for p in exp[field].as_array().unwrap() {
			want.insert((p[0].as_str().unwrap().to_string(), p[1].as_u64().unwrap(), p[2].as_u64().unwrap(), p[3].as_u64().unwrap()));
		}
		let mut got: BTreeSet<(String, u64, u64, u64)> = BTreeSet::new();
		for e in list.iter().filter(|e| e.pointer) {
			let k = run.keymap.get(&e.user_key).cloned().unwrap_or_else(|| hex(&e.user_key));
			got.insert((k, e.seq, e.file_id as u64, ordinal.get(&(e.file_id, e.offset)).copied().unwrap_or(0)));
		}
		if want != got {
			drift.push(json!({"kind":label,"spec":format!("{want:?}"),"impl":format!("{got:?}")}));
		}
	}
	{
		let mut want: BTreeSet<(String, u64)> = BTreeSet::new();
		for p in exp["inline"].as_array().unwrap() {
			want.insert((p[0].as_str().unwrap().to_string(), p[1].as_u64().unwrap()));
		}
		let mut got: BTreeSet<(String, u64)> = BTreeSet::new();
		for e in walk.entries.iter().filter(|e| !e.pointer && e.kind != 0 && e.kind != 1) {
			got.insert((run.keymap.get(&e.user_key).cloned().unwrap_or_else(|| hex(&e.user_key)), e.seq));
		}
		if want != got {
			drift.push(json!({"kind":"inline","spec":format!("{want:?}"),"impl":format!("{got:?}")}));
		}
	}
	let _ = in_flight;

	// size classes actually exercised (coverage)
	let mut classes: BTreeMap<String, u64> = BTreeMap::new();
	for c in &run.commits {
		if c.kind == "Set" {
			let rel = if c.len == 0 {
				"0"
			} else if c.len < cfg.thr {
				"thr-"
			} else if c.len == cfg.thr {
				"thr"
			} else if c.len <= cfg.thr + 2 {
				"thr+"
			} else if c.len < 5000 {
				"multi_block"
			} else {
				"gt_file"
			};
			*classes.entry(rel.to_string()).or_insert(0) += 1;
		}
	}
	stats["classes"] = json!(classes);
	stats["pointers"] = json!(walk.entries.iter().filter(|e| e.pointer).count());
	stats["files"] = json!(walk.dir_files.len());

	// release parked work, end readers, close
	for (_, r) in readers.iter_mut() {
		r.end();
	}
	if let Some(p) = flush.take() {
		let _ = finish_parked(p, sink);
	}
	if let Some(p) = compact.take() {
		let _ = finish_parked(p, sink);
	}
	let _ = rt.block_on(tree.close());
	Ok((viol, drift, stats))
}

// ------------------------------------------------------------------------------------------------
fn replay_main(args: &[String]) {
	let argval = |name: &str| args.iter().position(|a| a == name).and_then(|i| args.get(i + 1)).cloned();
	let flag = |name: &str| args.iter().any(|a| a == name);
	let versioning = flag("--versioning");
	let cfg = Cfg {
		thr: if versioning { 0 } else { argval("--thr").map(|s| s.parse().unwrap()).unwrap_or(64) },
		filecap: argval("--filecap").map(|s| s.parse().unwrap()).unwrap_or(1),
		levels: argval("--levels").map(|s| s.parse().unwrap()).unwrap_or(2),
		versioning,
		finite: flag("--finite"),
		index: flag("--index"),
		cache: argval("--cache").map(|s| s.parse().unwrap()).unwrap_or(1),
		full_checksum: flag("--full-checksum"),
		plan: argval("--plan").map(|s| s.parse().unwrap()).unwrap_or(0),
		block: argval("--block").map(|s| s.parse().unwrap()).unwrap_or(128),
	};
	let jobs: usize = argval("--jobs").map(|s| s.parse().unwrap()).unwrap_or(8);
	verif_harness::quiet_panics();
	let sink = GateSink::install();
	let f = std::fs::File::open(&args[0]).unwrap_or_else(|e| {
		eprintln!("cannot open {}: {e}", args[0]);
		std::process::exit(2)
	});
	let mut scenarios: Vec<Value> = Vec::new();
	for line in BufReader::new(f).lines() {
		let line = line.unwrap();
		let text: String = if line.starts_with("\"REPLAY ") || line.starts_with("\"CEX ") {
			let s: String = serde_json::from_str(&line).unwrap();
			s[s.find(' ').unwrap() + 1..].to_string()
		} else if line.starts_with('{') {
			line
		} else {
			continue;
		};
		scenarios.push(serde_json::from_str(&text).unwrap());
	}
	let sum = Arc::new(Mutex::new(Summary::new("vlog_run")));
	let next = Arc::new(AtomicU64::new(0));
	let scenarios = Arc::new(scenarios);
	// watchdog: a scenario that does not come back is a hang of the code under test
	let running: Arc<Mutex<HashMap<usize, (Instant, usize)>>> = Arc::new(Mutex::new(HashMap::new()));
	{
		let (running, sum, scenarios, cfg) = (running.clone(), sum.clone(), scenarios.clone(), cfg.clone());
		std::thread::spawn(move || loop {
			std::thread::sleep(Duration::from_millis(500));
			let stuck: Option<usize> =
				running.lock().unwrap().values().find(|(t, _)| t.elapsed() > Duration::from_secs(90)).map(|(_, i)| *i);
			if let Some(i) = stuck {
				let mut s = sum.lock().unwrap();
				s.violation(json!({"kind":"hang","scenario":scenarios[i],"cfg":cfg.json()}));
				s.print();
				std::process::exit(0);
			}
		});
	}
	let mut hs = Vec::new();
	let class_tot: Arc<Mutex<BTreeMap<String, u64>>> = Arc::new(Mutex::new(BTreeMap::new()));
	let counters: Arc<Mutex<BTreeMap<String, u64>>> = Arc::new(Mutex::new(BTreeMap::new()));
	for w in 0..jobs {
		let (sum, next, scenarios, cfg, sink, running, class_tot, counters) = (
			sum.clone(),
			next.clone(),
			scenarios.clone(),
			cfg.clone(),
			sink.clone(),
			running.clone(),
			class_tot.clone(),
			counters.clone(),
		);
		hs.push(std::thread::spawn(move || loop {
			let i = next.fetch_add(1, Ordering::SeqCst) as usize;
			if i >= scenarios.len() {
				break;
			}
			let sc = &scenarios[i];
			running.lock().unwrap().insert(w, (Instant::now(), i));
			let res = verif_harness::catch(|| run_scenario(sc, i as u64, &cfg, &sink));
			running.lock().unwrap().remove(&w);
			let mut s = sum.lock().unwrap();
			s.cases += 1;
			s.steps += sc["ops"].as_array().map(|a| a.len()).unwrap_or(0) as u64;
			if i % 1500 == 0 {
				s.sample(json!({"ops": sc["ops"], "cfg": cfg.json()}));
			}
			match res {
				Ok(Ok((viol, drift, stats))) => {
					for mut v in viol {
						v["scenario"] = json!({"ops": sc["ops"], "expect": sc["expect"], "index": i});
						s.violation(v);
					}
					for d in drift {
						s.drift(d);
					}
					if let Some(c) = stats["classes"].as_object() {
						let mut t = class_tot.lock().unwrap();
						for (k, v) in c {
							*t.entry(k.clone()).or_insert(0) += v.as_u64().unwrap_or(0);
						}
					}
					let mut c = counters.lock().unwrap();
					for k in ["pointers", "files", "flush_not_parked", "compact_not_parked"] {
						*c.entry(k.to_string()).or_insert(0) += stats[k].as_u64().unwrap_or(0);
					}
				}
				Ok(Err(e)) => s.violation(json!({"kind":"engine_error","error":short(&e),
					"scenario":{"ops": sc["ops"], "expect": sc["expect"], "index": i}})),
				Err(p) => s.violation(json!({"kind":"panic","message":short(&p),
					"scenario":{"ops": sc["ops"], "expect": sc["expect"], "index": i}})),
			}
		}));
	}
	for h in hs {
		let _ = h.join();
	}
	let mut s = sum.lock().unwrap();
	s.extra.insert("cfg".into(), cfg.json());
	s.extra.insert("size_classes".into(), json!(*class_tot.lock().unwrap()));
	s.extra.insert("counters".into(), json!(*counters.lock().unwrap()));
	s.print();
}

// ------------------------------------------------------------------------------------------------
// crash workload (runs under shim/fsrec.so) and the judge of a crash image

type MarkFn = unsafe extern "C" fn(*const libc::c_char) -> u64;

fn mark(text: &str) -> u64 {
	static F: std::sync::OnceLock<Option<MarkFn>> = std::sync::OnceLock::new();
	let f = F.get_or_init(|| unsafe {
		let sym = libc::dlsym(libc::RTLD_DEFAULT, c"fsrec_mark".as_ptr());
		if sym.is_null() {
			None
		} else {
			Some(std::mem::transmute::<*mut libc::c_void, MarkFn>(sym))
		}
	});
	match f {
		Some(f) => {
			let c = CString::new(text).unwrap();
			unsafe { f(c.as_ptr()) }
		}
		None => 0,
	}
}

/// options of the crash workloads, from their JSON description (shared by `record` and `reopen`)
fn crash_options(dir: &Path, o: &Value) -> Options {
	let memtable = o["memtable"].as_u64().unwrap_or(32768) as usize;
	let l0 = o["l0"].as_u64().unwrap_or(2) as usize;
	let mut opts = Options::new()
		.with_path(dir.to_path_buf())
		.with_max_memtable_size(memtable)
		.with_level_count(o["levels"].as_u64().unwrap_or(3) as u8)
		.with_block_size(512)
		.with_block_cache_capacity(o["cache"].as_u64().unwrap_or(1 << 20))
		.with_enable_vlog(true);
	opts.level0_max_files = l0;
	let mut opts = opts.with_l0_stall_threshold(l0.max(2) * 4).with_memtable_stall_threshold(4);
	if o["versioning"].as_bool().unwrap_or(false) {
		opts = opts.with_versioning(true, 0);
		if o["index"].as_bool().unwrap_or(false) {
			opts = opts.with_versioned_index(true);
		}
	} else {
		opts = opts.with_vlog_value_threshold(o["thr"].as_u64().unwrap_or(256) as usize);
	}
	if o["full_checksum"].as_bool().unwrap_or(false) {
		opts = opts.with_vlog_checksum_verification(VLogChecksumLevel::Full);
	}
	opts.with_vlog_max_file_size(o["vmax"].as_u64().unwrap_or(4096))
}

/// value of the crash workloads: "<txn>:<key>:<len>|" + body; shorter than the tag: the tag cut to len
fn crash_value(txn: u64, key: &str, len: usize) -> Vec<u8> {
	let mut v = format!("{txn}:{key}:{len}|").into_bytes();
	v.truncate(len);
	let mut x = txn.wrapping_mul(0x9E3779B97F4A7C15) ^ (len as u64);
	while v.len() < len {
		x ^= x << 13;
		x ^= x >> 7;
		x ^= x << 17;
		v.push((x & 0xff) as u8);
	}
	v
}

fn walk_json(dir: &Path, w: &VlogWalk) -> Value {
	let _ = dir;
	json!({
		"files": w.dir_files.iter().map(|(i, l)| json!([i, l])).collect::<Vec<_>>(),
		"active": w.active_writer_id, "next": w.next_file_id, "min_oldest": w.min_oldest,
		"tables": w.tables.iter().map(|t| json!([t.id, t.level, t.oldest_vlog_file_id])).collect::<Vec<_>>(),
		"ptrs": w.entries.iter().filter(|e| e.pointer).map(|e| json!([e.table_id, e.file_id, e.offset,
			8 + e.key_size as u64 + e.value_size as u64 + 4])).collect::<Vec<_>>(),
		"index_ptrs": w.index_entries.iter().filter(|e| e.pointer).map(|e| json!([0, e.file_id, e.offset,
			8 + e.key_size as u64 + e.value_size as u64 + 4])).collect::<Vec<_>>(),
	})
}

fn record_main(args: &[String]) {
	let argval = |name: &str| args.iter().position(|a| a == name).and_then(|i| args.get(i + 1)).cloned();
	let flag = |name: &str| args.iter().any(|a| a == name);
	let dir = PathBuf::from(argval("--dir").expect("--dir"));
	let meta = argval("--meta").expect("--meta");
	let seed: u64 = argval("--seed").map(|s| s.parse().unwrap()).unwrap_or(1);
	let txns: u64 = argval("--txns").map(|s| s.parse().unwrap()).unwrap_or(30);
	let first_txn: u64 = argval("--first-txn").map(|s| s.parse().unwrap()).unwrap_or(1);
	let opts_json: Value = serde_json::from_str(&argval("--opts").expect("--opts")).expect("opts json");
	let thr = if opts_json["versioning"].as_bool().unwrap_or(false) { 0 } else { opts_json["thr"].as_u64().unwrap_or(256) as usize };
	let vmax = opts_json["vmax"].as_u64().unwrap_or(4096) as usize;
	let explicit = flag("--explicit"); // maintenance by explicit calls (with a walk after each) instead of background tasks

	let rt = tokio::runtime::Builder::new_multi_thread().worker_threads(3).enable_all().build().unwrap();
	let _g = rt.enter();
	let mut opts = crash_options(&dir, &opts_json);
	if explicit {
		opts.level0_max_files = 64;
		opts = opts.with_l0_stall_threshold(64).with_memtable_stall_threshold(64).with_max_memtable_size(4 << 20);
	}
	mark(&json!({"ev":"open_begin"}).to_string());
	let tree = match TreeBuilder::with_options(opts).build() {
		Ok(t) => t,
		Err(e) => {
			std::fs::write(&meta, json!({"opts": opts_json, "open_failed": e.to_string(), "txns": []}).to_string()).unwrap();
			println!("SUMMARY {}", json!({"driver":"vlog_run","open_failed":e.to_string()}));
			return;
		}
	};
	mark(&json!({"ev":"open_done"}).to_string());
	let mut rng = StdRng::seed_from_u64(seed);
	let keys: Vec<String> = (0..8).map(|i| format!("key{i:02}")).collect();
	let mut log: Vec<Value> = Vec::new();
	let state_mark = |tree: &Tree, what: &str| {
		if let Ok(w) = tree.verif_vlog_pointers() {
			mark(&json!({"ev":"state","after":what,"walk":walk_json(&dir, &w)}).to_string());
		}
	};
	for i in 0..txns {
		let id = first_txn + i;
		let n = match rng.random_range(0..10) {
			0..=4 => 1,
			5..=7 => 2,
			_ => 4,
		};
		let mut eff: BTreeMap<String, Value> = BTreeMap::new();
		let mut t = tree.begin().expect("begin");
		let immediate = rng.random_range(0..3) != 0;
		if immediate {
			t.set_durability(Durability::Immediate);
		}
		for _ in 0..n {
			let k = &keys[rng.random_range(0..keys.len())];
			match rng.random_range(0..10) {
				0 | 1 => {
					t.delete(k.as_bytes()).unwrap();
					eff.insert(k.clone(), Value::Null);
				}
				_ => {
					// sizes around the threshold, multi-block, larger than a value-log file
					let len = match rng.random_range(0..12) {
						0 => 0,
						1 => thr.saturating_sub(1),
						2 => thr,
						3 | 4 => thr + 1,
						5 | 6 => thr + 2 + rng.random_range(0..40),
						7 | 8 => 1500 + rng.random_range(0..600),
						9 => vmax + 1 + rng.random_range(0..300),
						_ => rng.random_range(1..40),
					};
					let v = crash_value(id, k, len);
					eff.insert(k.clone(), json!(format!("{id}:{k}:{len}")));
					t.set(k.as_bytes(), v).unwrap();
				}
			}
		}
		mark(&json!({"ev":"commit_begin","txn":id}).to_string());
		let r = rt.block_on(t.commit());
		match &r {
			Ok(()) => {
				mark(&json!({"ev":"commit_ack","txn":id,"sync":immediate}).to_string());
			}
			Err(e) => {
				mark(&json!({"ev":"commit_err","txn":id,"error":e.to_string()}).to_string());
			}
		}
		log.push(json!({"txn": id, "ok": r.is_ok(), "sync": immediate, "effect": eff}));
		if explicit {
			match rng.random_range(0..10) {
				0..=2 => {
					mark(&json!({"ev":"maint_begin","what":"flush"}).to_string());
					let r = tree.verif_flush();
					mark(&json!({"ev":"maint_end","what":"flush","ok":r.is_ok()}).to_string());
					state_mark(&tree, "flush");
				}
				3 | 4 => {
					let l = rng.random_range(0..2) as u8;
					mark(&json!({"ev":"maint_begin","what":"compact","level":l}).to_string());
					let r = tree.verif_compact(l);
					mark(&json!({"ev":"maint_end","what":"compact","ok":r.is_ok()}).to_string());
					state_mark(&tree, "compact");
				}
				_ => {}
			}
		} else {
			match rng.random_range(0..12) {
				0 => {
					if tree.flush_wal(true).is_ok() {
						mark(&json!({"ev":"flush_wal","sync":true}).to_string());
					}
				}
				2 | 3 => rt.block_on(async { tokio::time::sleep(Duration::from_millis(15)).await }),
				_ => {}
			}
		}
	}
	rt.block_on(async { tokio::time::sleep(Duration::from_millis(60)).await });
	if !flag("--no-close") {
		mark(&json!({"ev":"close_begin"}).to_string());
		let r = rt.block_on(tree.close());
		mark(&json!({"ev":"close_done","ok":r.is_ok()}).to_string());
	}
	std::fs::write(&meta, json!({"opts": opts_json, "txns": log, "explicit": explicit}).to_string()).unwrap();
	println!("SUMMARY {}", json!({"driver":"vlog_run","cases":1,"steps":txns,"violations":[],"violation_count":0,"drift":[],"drift_count":0,"samples":[],"extra":{}}));
	std::mem::forget(tree);
}

/// identity of a value of the crash workloads, or why it is not one
fn crash_value_id(key: &str, v: &[u8], lens: &HashMap<(u64, String), usize>) -> String {
	// every (txn, key) wrote at most one value; find the one these bytes are
	for ((txn, k), len) in lens {
		if k == key && *len == v.len() && crash_value(*txn, k, *len) == v {
			// a value too short to carry its whole tag is the same for several transactions
			let tag = format!("{txn}:{k}:{len}|");
			if *len <= tag.len() {
				return format!("short:{k}:{len}:{}", &tag[..*len]);
			}
			return format!("{txn}:{k}:{len}");
		}
	}
	format!("CORRUPT(len={},head={})", v.len(), String::from_utf8_lossy(&v[..v.len().min(24)]))
}

fn reopen_main(args: &[String]) {
	let dir = PathBuf::from(&args[0]);
	let o: Value = serde_json::from_str(&args[1]).expect("opts json");
	let meta: Value = serde_json::from_str(&std::fs::read_to_string(&args[2]).expect("meta file")).expect("meta json");
	let probe = args.iter().any(|a| a == "--probe");
	let twice = args.iter().any(|a| a == "--twice");
	let mut lens: HashMap<(u64, String), usize> = HashMap::new();
	for t in meta["txns"].as_array().unwrap() {
		for (k, v) in t["effect"].as_object().unwrap() {
			if let Some(id) = v.as_str() {
				let len: usize = id.rsplit(':').next().unwrap().parse().unwrap();
				lens.insert((t["txn"].as_u64().unwrap(), k.clone()), len);
			}
		}
	}
	lens.insert((999999, "key00".into()), 300);
	lens.insert((999999, "zz-probe".into()), 300);
	let rt = tokio::runtime::Builder::new_multi_thread().worker_threads(2).enable_all().build().unwrap();
	let _g = rt.enter();
	let scan = |tree: &Tree| -> (BTreeMap<String, String>, Vec<Value>) {
		let mut errs = Vec::new();
		let mut m = BTreeMap::new();
		let t = match tree.begin_with_mode(Mode::ReadOnly) {
			Ok(t) => t,
			Err(e) => return (m, vec![json!({"kind":"begin_error","error":e.to_string()})]),
		};
		match t.range(b"\x00".to_vec(), b"\xff\xff\xff".to_vec()) {
			Err(e) => errs.push(json!({"kind":"scan_error","error":e.to_string()})),
			Ok(mut it) => match scan_all(&mut it, true) {
				Err(e) => errs.push(json!({"kind":"scan_error","error":short(&e)})),
				Ok(rows) => {
					for (uk, seq, _t, v) in rows {
						let k = String::from_utf8_lossy(&uk).to_string();
						match v {
							Err(e) => {
								errs.push(json!({"kind":"scan_value_error","key":k,"seq":seq,"cause":err_class(&e),"error":short(&e)}));
								m.insert(k, "ERROR".into());
							}
							Ok(b) => {
								let id = crash_value_id(&k, &b, &lens);
								if id.starts_with("CORRUPT") {
									errs.push(json!({"kind":"scan_corrupt_value","key":k,"seq":seq,"got":id}));
								}
								m.insert(k, id);
							}
						}
					}
				}
			},
		}
		for (k, id) in m.clone() {
			match t.get(k.as_bytes()) {
				Err(e) => errs.push(json!({"kind":"get_error","key":k,"cause":err_class(&e.to_string()),"error":short(&e.to_string())})),
				Ok(None) => errs.push(json!({"kind":"get_disagrees_with_scan","key":k,"scan":id,"get":"absent"})),
				Ok(Some(b)) => {
					let g = crash_value_id(&k, &b, &lens);
					if g != id && id != "ERROR" {
						errs.push(json!({"kind":"get_disagrees_with_scan","key":k,"scan":id,"get":g}));
					}
				}
			}
		}
		(m, errs)
	};
	let mut out = json!({"open": "ok", "scan": null, "errors": [], "dangling": [], "probe": null, "second": null});
	eprintln!("stage:open");
	match TreeBuilder::with_options(crash_options(&dir, &o)).build() {
		Err(e) => out["open"] = json!(format!("err:{e}")),
		Ok(tree) => {
			// Reachable on the recovered image, before any read
			eprintln!("stage:walk");
			match tree.verif_vlog_pointers() {
				Err(e) => out["errors"].as_array_mut().unwrap().push(json!({"kind":"walk_error","error":e.to_string()})),
				Ok(w) => {
					let mut dang = Vec::new();
					judge_walk(&dir, &w, &|_k, _s| None, &mut dang);
					out["dangling"] = json!(dang);
					out["walk"] = json!({"files": w.dir_files.len(), "ptrs": w.entries.iter().filter(|e| e.pointer).count(),
						"index_ptrs": w.index_entries.iter().filter(|e| e.pointer).count(), "active": w.active_writer_id});
				}
			}
			eprintln!("stage:scan");
			let (m, errs) = scan(&tree);
			out["scan"] = json!(m);
			out["errors"].as_array_mut().unwrap().extend(errs);
			eprintln!("stage:probe");
			if probe {
				let r = (|| -> Result<(), String> {
					let mut t = tree.begin().map_err(|e| e.to_string())?;
					t.set_durability(Durability::Immediate);
					t.set(b"key00", crash_value(999999, "key00", 300)).map_err(|e| e.to_string())?;
					t.set(b"zz-probe", crash_value(999999, "zz-probe", 300)).map_err(|e| e.to_string())?;
					rt.block_on(t.commit()).map_err(|e| format!("commit: {e}"))?;
					// (no explicit flush here: the background tasks of the freshly opened store are running; the
					// values are separated by the flush of close() and read back by the second open)
					let r = tree.begin_with_mode(Mode::ReadOnly).map_err(|e| e.to_string())?;
					for k in ["key00", "zz-probe"] {
						match r.get(k.as_bytes()).map_err(|e| e.to_string())? {
							Some(v) if v == crash_value(999999, k, 300) => {}
							other => return Err(format!("probe value wrong: {:?}", other.map(|v| v.len()))),
						}
					}
					Ok(())
				})();
				out["probe"] = json!(match r {
					Ok(()) => "ok".to_string(),
					Err(e) => e,
				});
			}
			eprintln!("stage:close");
			let c = rt.block_on(tree.close());
			eprintln!("stage:closed");
			if let Err(e) = c {
				out["close"] = json!(e.to_string());
			}
			drop(tree);
			if twice {
				match TreeBuilder::with_options(crash_options(&dir, &o)).build() {
					Err(e) => out["second"] = json!({"open": format!("err:{e}")}),
					Ok(t2) => {
						let (m, errs) = scan(&t2);
						out["second"] = json!({"open":"ok","scan":m,"errors":errs});
						let _ = rt.block_on(t2.close());
					}
				}
			}
		}
	}
	println!("RESULT {}", out);
}

fn main() {
	let args: Vec<String> = std::env::args().collect();
	if args.len() < 3 {
		eprintln!("usage: vlog_run replay|record|reopen ...");
		std::process::exit(2);
	}
	match args[1].as_str() {
		"replay" => replay_main(&args[2..]),
		"record" => record_main(&args[2..]),
		"reopen" => reopen_main(&args[2..]),
		_ => {
			eprintln!("unknown mode {}", args[1]);
			std::process::exit(2);
		}
	}
}
