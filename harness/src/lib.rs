//! Shared helpers for the verification drivers.
//!
//! Every driver is a small binary that reads NDJSON (TLC-generated programs,
//! schedules or scenarios) or generates seeded workloads, runs them against the
//! real surrealkv code, and prints one JSON summary on stdout. Exit status:
//! 0 = ran to completion (violations, if any, are in the summary),
//! 2 = tool trouble (bad input, cannot create directories...).

pub mod keys;
pub mod out;
pub mod sched;

use std::path::PathBuf;

/// Fresh scratch directory under $VERIF_WORK (default: /verif/work/tmp).
pub fn scratch_dir(tag: &str) -> tempfile::TempDir {
	// tmpfs when available (thousands of short-lived databases), else $VERIF_WORK, else ./work/tmp
	let base = std::env::var("VERIF_SCRATCH").map(PathBuf::from).unwrap_or_else(|_| {
		let shm = PathBuf::from("/dev/shm");
		if shm.is_dir() && std::fs::create_dir_all(shm.join("verif-scratch")).is_ok() {
			return shm.join("verif-scratch");
		}
		std::env::var("VERIF_WORK").map(PathBuf::from).unwrap_or_else(|_| {
			let mut p = std::env::current_dir().unwrap();
			p.push("work");
			p.push("tmp");
			p
		})
	});
	std::fs::create_dir_all(&base).expect("create scratch base");
	tempfile::Builder::new().prefix(tag).tempdir_in(base).expect("create scratch dir")
}

/// Run `f`, turning a panic of the code under test into data.
pub fn catch<T>(f: impl FnOnce() -> T) -> Result<T, String> {
	let r = std::panic::catch_unwind(std::panic::AssertUnwindSafe(f));
	r.map_err(|e| {
		if let Some(s) = e.downcast_ref::<&str>() {
			(*s).to_string()
		} else if let Some(s) = e.downcast_ref::<String>() {
			s.clone()
		} else {
			"panic".to_string()
		}
	})
}

/// Silence the default panic hook (panics of the code under test are data).
pub fn quiet_panics() {
	std::panic::set_hook(Box::new(|_| {}));
}

pub fn rt() -> tokio::runtime::Runtime {
	tokio::runtime::Builder::new_current_thread().enable_all().build().unwrap()
}

pub fn rt_multi(n: usize) -> tokio::runtime::Runtime {
	tokio::runtime::Builder::new_multi_thread().worker_threads(n).enable_all().build().unwrap()
}
