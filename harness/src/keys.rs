//! Mapping from model key / value names to adversarial byte strings.

/// Model key name -> bytes. Keys are chosen so that they are prefixes of each
/// other and contain 0x00 / 0xff; their bytewise order equals the order of the
/// model names k1 < k2 < k3 ...
pub fn key_bytes(name: &str) -> Vec<u8> {
	match name {
		"" => vec![],
		"k1" => b"a".to_vec(),
		"k2" => b"a\x00".to_vec(),
		"k3" => b"a\x00\xff".to_vec(),
		"k4" => b"a\xff".to_vec(),
		"k5" => b"a\xff\x00".to_vec(),
		"k6" => b"b".to_vec(),
		other => {
			// k<N>: generic
			let mut v = b"c".to_vec();
			v.extend_from_slice(other.as_bytes());
			v
		}
	}
}

/// Model value name -> bytes. "v1" is the empty value on purpose.
pub fn val_bytes(name: &str) -> Vec<u8> {
	match name {
		"v1" => vec![],
		"v0" => b"\x00".to_vec(),
		"v2" => b"\xff\x00v2".to_vec(),
		other => other.as_bytes().to_vec(),
	}
}

pub fn hex(b: &[u8]) -> String {
	b.iter().map(|x| format!("{:02x}", x)).collect()
}
